"""Which units / harnesses decide which property (DESIGN.md §1, §4)."""

# unit -> property that owns the *unlabelled* safety obligations (overflow, index, unwrap, termination)
# of the extracted bodies
UNIT_SAFETY = {
    "trg": "C01",
    "adc": "C01",
    "chunk": "C01",
    "pwb": "C01",
    "pwbchunks": "C01",
    "ring": "C09",
    "scan": "C19",
    "cbtime": "C20",
    "fifo": "C07",
    "padmap": "C09",
    "wiremap": "C09",
}

PROPS = {
    "C01": {
        "title": "Raw-data decoders are total",
        "units": ["trg", "adc", "chunk", "pwb", "pwbchunks"],
        "kani_quick": ["trg_complete_80", "trg_other_lengths", "small_ids_complete", "alpha16_mac_complete", "pwb_readout_complete",
                       "fifo_word_complete", "fifo_word_short", "scalers_block_lengths", "adc_len16", "adc_short_lengths"],
        "kani_thorough": ["pwb_mac_complete", "pwb_device_complete", "name_adc16_4", "name_adc32_4", "name_padwing_4", "name_fixed_4",
                          "name_main_event_4", "name_other_lengths", "adc_len164", "adc_len166", "adc_len165_162",
                          "chunk_len28", "chunk_other_lengths", "pwb_0ch"],
        "native_quick": ["c07_stream"],
        "level": "proof",
    },
    "C02": {
        "title": "ADC packet decoding is exact",
        "units": ["adc"],
        "kani_quick": ["adc_len16", "adc_short_lengths", "alpha16_mac_complete"],
        "kani_thorough": ["adc_len164", "adc_len166", "adc_len165_162"],
        "level": "proof",
    },
    "C03": {
        "title": "PWB chunks are integrity-checked",
        "units": ["chunk"],
        "kani_quick": [],
        "kani_thorough": ["chunk_len28", "chunk_other_lengths", "pwb_device_complete"],
        "level": "proof",
    },
    "C04": {
        "title": "PWB packet reassembly is arrival-order independent and loss/duplication safe",
        "units": ["pwbchunks"],
        "native_quick": ["c04_enum"],
        "level": "proof",
    },
    "C05": {
        "title": "PWB packet decoding is exact",
        "units": ["pwb"],
        "kani_quick": ["pwb_readout_complete"],
        "kani_thorough": ["pwb_mac_complete", "pwb_0ch"],
        "level": "proof",
    },
    "C06": {
        "title": "TRG packet decoding is exact and decoded counters are ordered",
        "units": ["trg"],
        "kani_quick": ["trg_complete_80", "trg_other_lengths"],
        "kani_thorough": [],
        "kani_arbiter": {"C06.accept_iff": ["trg_complete_80", "trg_other_lengths"], "C06.fields": ["trg_complete_80"],
                         "C06.ordered": ["trg_complete_80"]},
        "level": "proof",
    },
    "C07": {
        "title": "Chronobox FIFO parsing is faithful, resumable and split-invariant",
        "units": ["fifo"],
        "kani_quick": ["fifo_word_complete", "fifo_word_short", "fifo_word_then_rest", "scalers_block_lengths"],
        "native_quick": ["c07_stream"],
        "level": "proof",
    },
    "C08": {
        "title": "Channel identity is unambiguous",
        "units": ["adc", "chunk", "pwb", "ring", "padmap", "wiremap"],
        "kani_quick": ["small_ids_complete", "alpha16_mac_complete", "pwb_readout_complete"],
        "kani_thorough": ["pwb_mac_complete", "pwb_device_complete", "name_adc16_4", "name_adc32_4", "name_padwing_4", "name_fixed_4",
                          "name_main_event_4"],
        "native_quick": ["c08_tables"],
        "level": "proof",
    },
    "C09": {
        "title": "Assembling and reconstructing never crashes (integer panic sites only)",
        "units": ["ring", "padmap", "wiremap"],
        "kani_quick": ["cal_wire_complete", "cal_pad_complete", "a_entry_complete"],
        "level": "proof",
    },
    "C10": {
        "title": "Event assembly: calibration expression only",
        "units": [],
        "kani_quick": ["cal_wire_complete", "cal_pad_complete"],
        "level": "proof",
    },
    "C13": {
        "title": "Reconstruction respects the detector's cylindrical symmetry (index layer)",
        "units": ["ring"],
        "kani_quick": ["a_entry_complete"],
        "level": "proof",
    },
    "C19": {
        "title": "Vertex/scaler CSVs: unwrapped time (scan step only)",
        "units": ["scan"],
        "level": "proof",
    },
    "C20": {
        "title": "Chronobox timestamps CSV never reports a wrong time (time arithmetic, row split)",
        "units": ["cbtime"],
        "kani_quick": ["split_row_marker_chunks", "split_row_keeps_all_timestamps"],
        "level": "proof",
    },
}
