"""Which units / harnesses decide which property (DESIGN.md §1, §4)."""

# unit -> property that owns the *unlabelled* safety obligations (overflow, index, unwrap, termination)
# of the extracted bodies
UNIT_SAFETY = {
    "trg": "C01",
    "adc": "C01",
    "chunk": "C01",
    "pwb": "C01",
    "pwbchunks": "C01",
    "ring": "C09",
    "scan": "C19",
    "cbtime": "C20",
}

PROPS = {
    "C01": {
        "title": "Raw-data decoders are total",
        "units": ["trg", "adc", "chunk", "pwb", "pwbchunks"],
        "kani_quick": ["trg_complete_80", "trg_other_lengths"],
        "kani_thorough": [],
        "level": "proof",
    },
    "C02": {
        "title": "ADC packet decoding is exact",
        "units": ["adc"],
        "kani_quick": [],
        "kani_thorough": [],
        "level": "proof",
    },
    "C03": {
        "title": "PWB chunks are integrity-checked",
        "units": ["chunk"],
        "level": "proof",
    },
    "C04": {
        "title": "PWB packet reassembly is arrival-order independent and loss/duplication safe",
        "units": ["pwbchunks"],
        "level": "proof",
    },
    "C05": {
        "title": "PWB packet decoding is exact",
        "units": ["pwb"],
        "level": "proof",
    },
    "C13": {
        "title": "Reconstruction respects the detector's cylindrical symmetry (index layer)",
        "units": ["ring"],
        "level": "proof",
    },
    "C19": {
        "title": "Vertex/scaler CSVs: unwrapped time (scan step only)",
        "units": ["scan"],
        "level": "proof",
    },
    "C20": {
        "title": "Chronobox timestamps CSV never reports a wrong time (time arithmetic)",
        "units": ["cbtime"],
        "level": "proof",
    },
    "C06": {
        "title": "TRG packet decoding is exact and decoded counters are ordered",
        "units": ["trg"],
        "kani_quick": ["trg_complete_80", "trg_other_lengths"],
        "kani_thorough": [],
        "kani_arbiter": {"C06.accept_iff": ["trg_complete_80", "trg_other_lengths"], "C06.fields": ["trg_complete_80"],
                         "C06.ordered": ["trg_complete_80"]},
        "level": "proof",
    },
}
