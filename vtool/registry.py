"""Which units / harnesses decide which property (DESIGN.md §1, §4)."""

# unit -> property that owns the *unlabelled* safety obligations of the extracted bodies
UNIT_SAFETY = {
    "trg": "C01",
}

PROPS = {
    "C06": {
        "title": "TRG packet decoding is exact and decoded counters are ordered",
        "units": ["trg"],
        "kani_quick": ["trg_complete_80", "trg_other_lengths"],
        "kani_thorough": [],
        "kani_arbiter": {"C06.accept_iff": ["trg_complete_80", "trg_other_lengths"], "C06.fields": ["trg_complete_80"], "C06.ordered": ["trg_complete_80"]},
        "level": "proof",
    },
}
