"""L2: Kani harnesses on the real compiled crate (scratch copy of /repo's working tree).

The scratch copy differs from the working tree by exactly:
  * `detector/src/lib.rs` gets three appended lines declaring `#[cfg(kani)] #[path=..] mod verif_kani;`
  * `.cargo/config.toml` (offline, crc32c patched by the stub crate in /verif/kani/crc32c-stub)
Nothing is written to /repo.  The copy and its build output are removed before returning.
"""
from __future__ import annotations
import json
import os
import re
import shutil
import subprocess
import tempfile
import time
from typing import Dict, List, Optional

# name -> metadata.  complete=True: loop-free (or constant-bound loops with unwinding assertions)
# over the full input domain of the stated shape => a proof, counted as discharged obligations.
HARNESSES: Dict[str, dict] = {}


def harness(name, target, complete, bound=None, timeout=600, crate="detector", stubs=False, decode=None, frag=None):
    HARNESSES[name] = {"name": name, "target": target, "complete": complete, "bound": bound,
                       "timeout": timeout, "crate": crate, "stubs": stubs, "decode": decode, "frag": frag}


# fragment units (contracts/<unit>.vspec, `mode rust`) compiled into the harness modules, with the stub that keeps the
# harness module compiling when the anchor is lost (the dependent harnesses are then reported undecided)
FRAG_UNITS = {
    "frag_phys": "pub fn wire_cal(_v: i16, _b: i16, _g: f64) -> f64 { unimplemented!() }\n"
                 "pub fn pad_cal(_v: i16, _b: i16, _g: f64) -> f64 { unimplemented!() }\n"
                 "pub fn a_entry(_i: usize, _j: usize) -> f64 { unimplemented!() }\n",
    "frag_leaves": "pub fn adc_sum64(_w: &[i16]) -> i32 { unimplemented!() }\n"
                   "pub fn adc_concat(_a: [u8; 4], _b: [u8; 4]) -> Vec<u8> { unimplemented!() }\n"
                   "pub fn adc_wave(_s: &[u8], _n: usize) -> Vec<i16> { unimplemented!() }\n"
                   "pub fn pwb_mask_sent(_s: &[u8]) -> u128 { unimplemented!() }\n"
                   "pub fn pwb_mask_threshold(_s: &[u8]) -> u128 { unimplemented!() }\n"
                   "pub fn pwb_ids(_c: Vec<u16>) -> Vec<ChannelId> { unimplemented!() }\n"
                   "pub fn pwb_samples(_d: &[u8]) -> Vec<i16> { unimplemented!() }\n"
                   "pub fn chunk_any_nonzero(_p: &Vec<u8>) -> bool { unimplemented!() }\n",
    "frag_cb": "pub fn split_row(_c: &[FifoEntry]) -> (Option<WrapAroundMarker>, &[FifoEntry]) { unimplemented!() }\n",
}


def build_frags(repo: str, verif: str, outdir: str) -> Dict[str, dict]:
    from . import vspec, extract
    os.makedirs(outdir, exist_ok=True)
    res = {}
    for unit, stub in FRAG_UNITS.items():
        path = os.path.join(outdir, unit + ".rs")
        try:
            u = vspec.parse(os.path.join(verif, "contracts", unit + ".vspec"))
            b = extract.UnitBuilder(repo, os.path.join(verif, "contracts", "lib"), u)
            open(path, "w").write(b.build())
            res[unit] = {"ok": True, "cuts": b.rep.cuts, "sources": b.rep.sources, "rules": b.rep.rules}
        except Exception as e:
            open(path, "w").write("// fragment extraction failed: " + str(e).replace("\n", " ") + "\n" + stub)
            res[unit] = {"ok": False, "reason": str(e)}
    return res


def _hex(vals):
    return "".join(f"{b:02x}" for v in vals for b in v)


def _int(v):
    return int.from_bytes(bytes(v), "little")


def bytes_op(op, n):
    """witness decoder: the harness draws one [u8; n] first"""
    return lambda vals: {"op": op, "bytes": _hex(vals[:n])}


def bytes_len_op(op, n):
    """the harness draws [u8; n] then a usize length"""
    return lambda vals: {"op": op, "bytes": _hex(vals[:n])[:2 * _int(vals[n])]}


harness("trg_complete_80", "TrgV3Packet::try_from / TrgPacket::try_from on [u8;80]", True,
        bound="all 2^640 slices of length 80", decode=bytes_op("trg", 80))
harness("trg_other_lengths", "TrgV3Packet::try_from on lengths 0..=96 except 80", True,
        bound="all lengths 0..=96 other than 80 (longer lengths: Verus, unbounded)", decode=bytes_len_op("trg", 96))

harness("alpha16_mac_complete", "alpha16::BoardId::try_from([u8;6])", True, bound="all 2^48 MAC addresses", decode=None)
harness("pwb_mac_complete", "padwing::BoardId::try_from([u8;6])", True, bound="all 2^48 MAC addresses")
harness("pwb_device_complete", "padwing::BoardId::try_from(u32)", True, bound="all u32 device ids")
harness("small_ids_complete", "Adc16/Adc32ChannelId, ModuleId, AfterId(u8,char), Compression, Trigger, EventId, chronobox::ChannelId", True, bound="all u8 / u16 / char")
harness("pwb_readout_complete", "padwing::ChannelId::try_from(u16)", True, bound="all u16 readout indices, all pairs for injectivity")
harness("name_adc16_4", "midas::Adc16BankName::try_from(&str)", True, bound="all 4-byte strings (the only length accepted)", timeout=1500)
harness("name_adc32_4", "midas::Adc32BankName::try_from(&str)", True, bound="all 4-byte strings", timeout=1500)
harness("name_padwing_4", "midas::PadwingBankName::try_from(&str)", True, bound="all 4-byte strings", timeout=1500)
harness("name_padwing_reject", "midas::PadwingBankName::try_from(&str) on every other 4-byte string", True, bound="all 4-byte strings that are not \"PC\" + two digits", timeout=1500)
harness("name_fixed_4", "Trigger/Trb3/Seq2/McVertex/ChronoboxBankName::try_from(&str)", True, bound="all 4-byte strings", timeout=1500)
harness("name_main_event_4", "MainEventBankName / Alpha16BankName dispatch", True, bound="all 4-byte strings", timeout=3000)
harness("name_main_event_dispatch", "MainEventBankName::try_from on 4-byte names not starting with B, C or P", True, bound="all 4-byte strings whose first byte is not B, C or P", timeout=1500)
harness("name_other_lengths", "bank-name parsers on strings of 0..=8 bytes except 4", False, bound="string length <= 8 bytes", timeout=3000)
harness("adc_len016", "AdcV3Packet::try_from on [u8;16]", False, bound="length 16 (suppressed form), all bytes", decode=bytes_op("adc", 16))
harness("adc_short_lengths", "AdcV3Packet::try_from on lengths 0..=35 except 16", False, bound="lengths <= 35", decode=bytes_len_op("adc", 35))
harness("adc_len164", "AdcV3Packet::try_from on [u8;164] (64 samples)", False, bound="length 164, all bytes", timeout=3000, decode=bytes_op("adc", 164))
harness("adc_len166", "AdcV3Packet::try_from on [u8;166] (65 samples)", False, bound="length 166, all bytes", timeout=3000, decode=bytes_op("adc", 166))
harness("adc_len165_162", "AdcV3Packet::try_from on 165 and 162 bytes", False, bound="lengths 165, 162, all bytes", timeout=3000, decode=bytes_op("adc", 165))
harness("chunk_len28", "Chunk::try_from on [u8;28] (CRC stub)", False, bound="length 28, all bytes, crc32c replaced by a stub", timeout=1500, decode=bytes_op("chunk", 28))
harness("chunk_len32", "Chunk::try_from on [u8;32] (CRC stub)", False, bound="length 32, all bytes, crc32c replaced by a stub", timeout=1500, decode=bytes_op("chunk", 32))
harness("chunk_other_lengths", "Chunk::try_from on lengths 0..=31 except 28", False, bound="lengths <= 31", timeout=1500, decode=bytes_len_op("chunk", 31))
harness("pwb_0ch", "PwbV2Packet::try_from on 56 bytes, no channel sent, <=2 threshold bits", False, bound="56 bytes, 0 sent channels, <=2 threshold bits", timeout=3000)
harness("fifo_word_complete", "chronobox::fifo_entry on every 4-byte word", True, bound="all 2^32 words", decode=bytes_op("fifo", 4))
harness("fifo_word_short", "chronobox::fifo_entry on 0..=3 bytes", True, bound="all inputs shorter than a word")
harness("fifo_word_then_rest", "chronobox::fifo_entry leaves the following 4 bytes untouched", True, bound="all 8-byte inputs", decode=bytes_op("fifo", 8))
harness("scalers_block_lengths", "chronobox::scalers_block at 0,3,4,243,244,245,248 bytes", True, bound="all bytes at the lengths where the verdict can change (take(240) is length-uniform)")
harness("cal_wire_complete", "wire calibration closure of MainEvent::try_from_banks (extracted expression)", True,
        bound="all v: i16, baseline: i16; gain in {3.0, -0.5, 1.0}", timeout=1500, frag="frag_phys")
harness("cal_pad_complete", "pad calibration closure of MainEvent::try_from_banks (extracted expression)", True,
        bound="all v: i16, baseline: i16; gain in {3.0, -0.5, 1.0}", timeout=1500, frag="frag_phys",
        decode=lambda vals: {"op": "c09_pad", "v": int.from_bytes(bytes(vals[0]), "little", signed=True),
                             "baseline": int.from_bytes(bytes(vals[1]), "little", signed=True)})
harness("a_entry_complete", "induction-matrix entry closure of a_matrix (extracted expression)", True,
        bound="all i, j < 256", frag="frag_phys")
harness("leaf_adc_sum_concat", "assumed leaves lift_sum / lift_concat of unit adc (64-sample sum, [msw,lsw].concat())", True,
        bound="all [i16;64] / all [u8;4] pairs", frag="frag_leaves", timeout=900)
harness("leaf_pwb_masks", "assumed leaves lift_mask_sent / lift_mask_threshold of unit pwb (copy_from_slice + u128::from_le_bytes)", True,
        bound="all 44-byte headers", frag="frag_leaves")
harness("leaf_small_vectors", "assumed leaves lift_waveform, lift_ids_*, lift_samples, lift_any_nonzero on short inputs", False,
        bound="<= 3 elements / <= 6 bytes", frag="frag_leaves", timeout=900)
harness("split_row_marker_chunks", "row split of chronobox-timestamps on chunks closed by a marker", False,
        bound="chunks of <= 3 entries", timeout=1500, frag="frag_cb")
harness("split_row_keeps_all_timestamps", "row split of chronobox-timestamps: every timestamp of a chunk gets a row", False,
        bound="chunks of <= 3 entries", timeout=1500, frag="frag_cb")
harness("split_row_structure_64", "row split of chronobox-timestamps: rows = the piece without its trailing marker (loop-free statement)", False,
        bound="pieces of <= 64 entries (capacity of the symbolic array; the code under test has no loop)", timeout=1500, frag="frag_cb")


def make_scratch(repo: str, verif: str) -> str:
    scratch = tempfile.mkdtemp(prefix="verif-kani-", dir=os.environ.get("VERIF_SCRATCH", "/tmp"))
    subprocess.run(["rsync", "-a", "--exclude", "target", "--exclude", ".git", repo.rstrip("/") + "/", scratch + "/"], check=True)
    for rel, harness_file in (("detector/src/lib.rs", "detector.rs"), ("detector/src/chronobox.rs", "chronobox.rs")):
        with open(os.path.join(scratch, rel), "a") as f:
            f.write(f'\n#[cfg(kani)]\n#[path = "{verif}/kani/{harness_file}"]\nmod verif_kani;\n')
    os.makedirs(os.path.join(scratch, ".cargo"), exist_ok=True)
    with open(os.path.join(scratch, ".cargo", "config.toml"), "w") as f:
        f.write(f'[net]\noffline = true\n[patch.crates-io]\ncrc32c = {{ path = "{verif}/kani/crc32c-stub" }}\n')
    return scratch


def frag_dir(scratch: str) -> str:
    return os.path.join(scratch, "verif_frag")


_sum_re = re.compile(r"\*\* (\d+) of (\d+) failed")


def parse_output(text: str) -> Dict[str, dict]:
    """split Kani's (terse, -j) output per harness.  `Thread N: Checking harness X...` announces a harness,
    a later `Thread N: ` block carries its result; without -j the `Thread N: ` prefixes are absent."""
    res: Dict[str, dict] = {}
    cur: Dict[str, str] = {}
    blocks: Dict[str, List[str]] = {}
    active = None
    for line in text.split("\n"):
        m = re.match(r"^(?:Thread (\d+): )?Checking harness (\S+?)\.\.\.", line)
        if m:
            th = m.group(1) or "0"
            cur[th] = m.group(2).split("::")[-1]
            blocks.setdefault(cur[th], [])
            active = cur[th] if m.group(1) is None else None
            continue
        m = re.match(r"^Thread (\d+): ?(.*)$", line)
        if m:
            active = cur.get(m.group(1))
            line = m.group(2)
        if line.startswith("Manual Harness Summary") or line.startswith("Complete - "):
            active = None
        if active is not None:
            blocks[active].append(line)
    for name, ls in blocks.items():
        b = "\n".join(ls)
        d = {"raw": b}
        m = _sum_re.search(b)
        if m:
            d["failed_checks"], d["checks"] = int(m.group(1)), int(m.group(2))
        if "VERIFICATION:- SUCCESSFUL" in b:
            d["verdict"] = "ok"
        elif "VERIFICATION:- FAILED" in b:
            d["verdict"] = "failed"
        m = re.search(r"Verification Time: ([0-9.]+)s", b)
        if m:
            d["time_s"] = float(m.group(1))
        d["failed_descriptions"] = re.findall(r"Failed Checks: (.*)", b)
        cov = re.search(r"\*\* (\d+) of (\d+) cover properties satisfied", b)
        if cov:
            d["cover"] = f"{cov.group(1)}/{cov.group(2)}"
            d["cover_ok"] = cov.group(1) == cov.group(2)
        d["unwind_fail"] = any("unwinding assertion" in x for x in d["failed_descriptions"])
        res[name] = d
    return res


def run_harnesses(repo: str, verif: str, names: List[str], keep: bool = False, jobs: int = 8) -> dict:
    t0 = time.time()
    out = {"harnesses": [], "wall_s": 0.0}
    unknown = [n for n in names if n not in HARNESSES]
    for n in unknown:
        out["harnesses"].append({"name": n, "status": "undecided", "reason": "harness not registered"})
    names = [n for n in names if n in HARNESSES]
    if not names:
        return out
    scratch = make_scratch(repo, verif)
    target_dir = os.path.join(verif, "work", "kani-target")
    os.makedirs(target_dir, exist_ok=True)
    env = dict(os.environ, CARGO_NET_OFFLINE="true", CARGO_TARGET_DIR=target_dir, VERIF_FRAG_DIR=frag_dir(scratch))
    frags = build_frags(repo, verif, frag_dir(scratch))
    out["fragments"] = frags
    try:
        tmo = max(HARNESSES[n]["timeout"] for n in names) + 300
        cmd = ["cargo", "kani", "-Z", "stubbing", "-j", str(jobs), "--output-format", "terse"]
        for n in names:
            cmd += ["--harness", n]
        try:
            with MemWatch(target_dir) as mw:
                p = subprocess.run(cmd, cwd=os.path.join(scratch, "detector"), env=env, capture_output=True, text=True, timeout=tmo)
            out["killed_for_memory"] = mw.killed
            text = p.stdout + "\n" + p.stderr
            timed_out = False
        except subprocess.TimeoutExpired as e:
            text = (e.stdout.decode() if isinstance(e.stdout, bytes) else (e.stdout or "")) + "\n" + \
                   (e.stderr.decode() if isinstance(e.stderr, bytes) else (e.stderr or ""))
            timed_out = True
            _kill_cbmc(scratch)
        per = parse_output(text)
        build_failed = ("error: could not compile" in text or "error[E" in text) and not per
        if build_failed and any(f.get("ok") for f in frags.values()):
            # a fragment that was cut out but does not compile in its wrapper (changed free variables, new helper ...) must not take
            # every other harness down with it: stub all fragments and run again; fragment harnesses become undecided
            first_err = _first_error(text)
            for unit, stub in FRAG_UNITS.items():
                if frags.get(unit, {}).get("ok"):
                    open(os.path.join(frag_dir(scratch), unit + ".rs"), "w").write("// fragment stubbed after a build failure\n" + stub)
                    frags[unit] = {"ok": False, "reason": "the harness module did not compile with the extracted fragments: " + first_err[:300]}
            try:
                with MemWatch(target_dir) as mw:
                    p = subprocess.run(cmd, cwd=os.path.join(scratch, "detector"), env=env, capture_output=True, text=True, timeout=tmo)
                text = p.stdout + "\n" + p.stderr
            except subprocess.TimeoutExpired:
                timed_out = True
                _kill_cbmc(scratch)
            per = parse_output(text)
            build_failed = ("error: could not compile" in text or "error[E" in text) and not per
        for n in names:
            meta = HARNESSES[n]
            h = dict(meta)
            d = per.get(n)
            if n in (out.get("killed_for_memory") or []):
                h.update(status="undecided", reason="cbmc exceeded the memory limit and was stopped")
            elif meta.get("frag") and not frags.get(meta["frag"], {}).get("ok"):
                h.update(status="undecided", reason="fragment not extracted: " + frags.get(meta["frag"], {}).get("reason", "?"))
            elif build_failed:
                h.update(status="undecided", reason="the crate (with the harness module) does not compile under Kani: " +
                         _first_error(text))
            elif d is None:
                h.update(status="undecided", reason="timeout" if timed_out else "no result for harness in Kani output: " + text[-300:])
            else:
                h.update(checks=d.get("checks", 0), failed_checks=d.get("failed_checks", 0), time_s=d.get("time_s"),
                         cover=d.get("cover"))
                if d.get("verdict") == "ok":
                    if d.get("cover") and not d.get("cover_ok"):
                        h.update(status="undecided", reason=f"vacuity guard: cover {d['cover']} (accepting path unreachable)")
                    elif not d.get("checks"):
                        h.update(status="undecided", reason="vacuity guard: zero checks")
                    else:
                        h.update(status="proved" if meta["complete"] else "bounded-ok")
                elif d.get("verdict") == "failed":
                    if d.get("unwind_fail") and len(d.get("failed_descriptions", [])) <= 1 and \
                            all("unwinding" in x for x in d.get("failed_descriptions", ["unwinding"])):
                        h.update(status="undecided", reason="unwinding assertion failed: bound too small for this code")
                    elif not d.get("failed_descriptions") and not d.get("failed_checks"):
                        # FAILED without a single failed check: CBMC crashed, was killed or ran out of memory -- never an alarm
                        h.update(status="undecided", reason="verification aborted without a failed check (solver crash / kill / out of memory)")
                    else:
                        h.update(status="failed", reason="; ".join(d.get("failed_descriptions", []))[:400] or "verification failed",
                                 witness=_decode(meta, _playback(scratch, env, n, meta["timeout"])), output=_tail(d["raw"]))
                else:
                    h.update(status="undecided", reason="no verdict (CBMC crash/timeout): " + d["raw"][-200:])
            out["harnesses"].append(h)
    finally:
        if not keep:
            shutil.rmtree(scratch, ignore_errors=True)
        else:
            print("kept scratch:", scratch)
    out["wall_s"] = round(time.time() - t0, 1)
    return out


def _decode(meta, w):
    if w is None or not meta.get("decode"):
        return None
    try:
        return meta["decode"](w["vals"])
    except Exception:
        return None


def _playback(scratch: str, env: dict, name: str, timeout: int) -> Optional[dict]:
    """second, single-threaded run of one failing harness with concrete playback (incompatible with -j)"""
    cmd = ["cargo", "kani", "-Z", "stubbing", "-Z", "concrete-playback", "--concrete-playback=print", "--harness", name]
    try:
        with MemWatch(env.get("CARGO_TARGET_DIR", scratch)):
            p = subprocess.run(cmd, cwd=os.path.join(scratch, "detector"), env=env, capture_output=True, text=True, timeout=timeout)
    except subprocess.TimeoutExpired:
        _kill_cbmc(scratch)
        return None
    return _witness(p.stdout + "\n" + p.stderr)


def _first_error(text: str) -> str:
    m = re.search(r"(error(\[E\d+\])?: .*(?:\n.*){0,6})", text)
    return m.group(1)[:600] if m else text[-400:]


def _tail(raw: str) -> str:
    lines = [l for l in raw.split("\n") if "FAILURE" in l or "Failed Checks" in l or "SUMMARY" in l or "VERIFICATION" in l]
    return "\n".join(lines[:40])


def _witness(raw: str) -> Optional[dict]:
    """concrete playback prints a unit test whose body lists `vec![..]` byte vectors, one per kani::any() call"""
    m = None
    for t in re.split(r"(?m)^/// Test generated for harness", raw)[1:]:
        if re.search(r"/// Check for `cover`", t):
            continue
        m = re.search(r"let concrete_vals: Vec<Vec<u8>> = vec!\[(.*?)\];\s*kani::concrete_playback_run", t, re.S)
        if m:
            break
    if not m:
        return None
    vals = []
    for v in re.finditer(r"vec!\[([0-9,\s]*)\]", m.group(1)):
        vals.append([int(x) for x in v.group(1).replace("\n", " ").split(",") if x.strip()])
    return {"kind": "kani_concrete_vals", "vals": vals}


class MemWatch:
    """kills any cbmc process of this run whose resident set exceeds the limit (the harness is then `undecided`)"""

    def __init__(self, marker: str, limit_gb: float = 14.0):
        import threading
        self.marker, self.limit, self.killed = marker, limit_gb * 1e6, []
        self._stop = threading.Event()
        self._t = threading.Thread(target=self._run, daemon=True)

    def __enter__(self):
        self._t.start()
        return self

    def __exit__(self, *a):
        self._stop.set()

    def _run(self):
        while not self._stop.wait(5):
            try:
                for pid in os.listdir("/proc"):
                    if not pid.isdigit():
                        continue
                    try:
                        cmd = open(f"/proc/{pid}/cmdline").read().replace("\0", " ")
                        if "cbmc" not in cmd.split(" ")[0] or self.marker not in cmd:
                            continue
                        rss = int(open(f"/proc/{pid}/statm").read().split()[1]) * 4   # kB
                        if rss > self.limit:
                            os.kill(int(pid), 9)
                            m = re.search(r"verif_kani\d*([a-z0-9_]+)\.out", cmd)
                            self.killed.append(m.group(1) if m else pid)
                    except (OSError, ValueError):
                        continue
            except OSError:
                pass


def _kill_cbmc(scratch: str):
    # kill only cbmc processes working inside our scratch directory (never pkill -f kani)
    try:
        ps = subprocess.run(["ps", "-eo", "pid,args"], capture_output=True, text=True).stdout
        for l in ps.split("\n"):
            if ("cbmc" in l or "goto-" in l or "kani-driver" in l) and scratch in l:
                try:
                    os.kill(int(l.split()[0]), 9)
                except Exception:
                    pass
    except Exception:
        pass
