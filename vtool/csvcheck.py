"""Bounded end-to-end checks that run the REAL analysis binaries on synthetic MIDAS files (C19, C20).

They are stand-ins (labelled bounded, never counted as proved) for the clauses no contract reaches: rows, order, files, and --
because an edit can move the anchors of the extracted scan step -- the time arithmetic as the binary really performs it.
The binaries are built from the working tree (`cargo build --release --offline`) into /verif/work/analysis-target-<key>.
"""
from __future__ import annotations
import hashlib
import itertools
import os
import shutil
import struct
import subprocess
import tempfile
import time

TRG_CLOCK = 62.5e6


# ---------------------------------------------------------------------------------------------- MIDAS writer
def bank(name: str, data: bytes) -> bytes:
    b = name.encode() + struct.pack("<II", 1, len(data)) + data
    return b + b"\0" * ((8 - len(data) % 8) % 8)


def event(eid: int, serial: int, ts: int, banks) -> bytes:
    allb = b"".join(banks)
    return struct.pack("<HHIIIII", eid, 0, serial, ts, len(allb) + 8, len(allb), 17) + allb


def midas(run: int, t0: int, t1: int, events) -> bytes:
    f = struct.pack("<HHIII", 0x8000, 0x494D, run, t0, 2) + b"{}"
    f += b"".join(events)
    f += struct.pack("<HHIII", 0x8001, 0x494D, run, t1, 2) + b"{}"
    return f


def trg_bank(timestamp: int, out: int = 5, valid: bool = True) -> bytes:
    b = bytearray(80)
    struct.pack_into("<I", b, 4, 0x80000000 | (out & 0x0FFFFFFF))
    struct.pack_into("<I", b, 8, timestamp & 0xFFFFFFFF)
    struct.pack_into("<I", b, 12, out)
    struct.pack_into("<I", b, 16, out + 3)
    struct.pack_into("<I", b, 20, 1)
    struct.pack_into("<I", b, 40, out + 2)
    struct.pack_into("<I", b, 44, out + 1)
    struct.pack_into("<I", b, 76, 0xE0000000 | (out & 0x0FFFFFFF))
    if not valid:
        b[48] = 1      # reserved word not zero: undecodable
    return bytes(b)


# ---------------------------------------------------------------------------------------------- building the binaries
def build(repo: str, verif: str, bins):
    key = hashlib.sha1(os.path.abspath(repo).encode()).hexdigest()[:8]
    target = os.path.join(verif, "work", f"analysis-target-{key}")
    env = dict(os.environ, CARGO_NET_OFFLINE="true", CARGO_TARGET_DIR=target)
    cmd = ["cargo", "build", "--release", "--offline", "-q", "-p", "alpha-g-analysis"]
    for b in bins:
        cmd += ["--bin", b]
    r = subprocess.run(cmd, cwd=repo, env=env, capture_output=True, text=True, timeout=3600)
    if r.returncode != 0:
        return None, (r.stderr or r.stdout)[-1200:]
    return {b: os.path.join(target, "release", b) for b in bins}, None


def run_bin(exe: str, files, out: str):
    r = subprocess.run([exe] + files + ["--output", out], capture_output=True, text=True, timeout=600)
    if r.returncode != 0 or not os.path.exists(out):
        return None, r.stderr[-400:]
    rows = []
    lines = [l for l in open(out).read().split("\n") if l and not l.startswith("#")]
    hdr = lines[0].split(",")
    for l in lines[1:]:
        rows.append(dict(zip(hdr, l.split(","))))
    return rows, None


# ---------------------------------------------------------------------------------------------- C19
def expected_times(seq):
    """seq: list of (serial, timestamp or None) of main events in file order -> list of expected trg_time (None = empty row)"""
    out = []
    prev = None
    cum = 0
    for _, ts in seq:
        cur = ts if ts is not None else (prev if prev is not None else 0)
        delta = (cur - (prev if prev is not None else cur)) % (1 << 32)
        prev = cur
        cum += delta
        out.append(cum / TRG_CLOCK if ts is not None else None)
    return out


C19_SCENARIOS = [
    ("plain", [100, 200, 1000, 62_500_100]),
    ("undecodable in the middle", [100, 62_500_100, None, 125_000_100, 187_500_100]),
    ("undecodable first and last", [None, 500, 1500, None]),
    ("two undecodable in a row", [10, None, None, 62_500_010]),
    ("wrap of the 32-bit counter", [0xFFFF_FF00, 0x100, 0x200]),
    ("gap of exactly 2^31 and above", [5, 5 + (1 << 31), 5 + (1 << 31) + (1 << 31) + 7]),
    ("gap of 2^32 - 1", [7, 6]),
    ("equal timestamps", [9, 9, 9]),
]


def c19_csv(repo: str, verif: str, tier: str) -> dict:
    t0 = time.time()
    target = "alpha-g-trg-scalers and alpha-g-vertices (real binaries) on synthetic MIDAS files"
    bound = f"{len(C19_SCENARIOS)} timestamp scenarios x 2 binaries, events split over 1 and 2 files given in both command-line orders, non-main events interleaved; for the reversed two-file order also RAYON_NUM_THREADS in {{1, 2, 5, 16}} with byte-identical data rows"
    bins, err = build(repo, verif, ["alpha-g-trg-scalers", "alpha-g-vertices"])
    if bins is None:
        return {"name": "c19_csv", "status": "undecided", "reason": "analysis binaries do not build: " + err, "target": target, "bound": bound}
    work = tempfile.mkdtemp(prefix="verif-c19-")
    cases = 0
    try:
        for name, seq in C19_SCENARIOS:
            evs = []
            main_seq = []
            for i, ts in enumerate(seq):
                serial = 10 + 3 * i
                if ts is None:
                    evs.append(event(1, serial, 50, [bank("ATAT", trg_bank(0, valid=False))]))
                else:
                    evs.append(event(1, serial, 50, [bank("ATAT", trg_bank(ts, out=5 + i))]))
                main_seq.append((serial, ts))
                evs.append(event(4, 900 + i, 50, [bank("CBF1", b"\0" * 4)]))      # another event type: no row
            exp = expected_times(main_seq)
            for nfiles in (1, 2):
                cut = len(evs) if nfiles == 1 else (len(evs) // 2) // 2 * 2
                parts = [evs] if nfiles == 1 else [evs[:cut], evs[cut:]]
                paths = []
                for k, part in enumerate(parts):
                    p = os.path.join(work, f"run00042sub{k:03}.mid")
                    open(p, "wb").write(midas(42, 1000 + 2 * k, 1001 + 2 * k, part))
                    paths.append(p)
                for order in ([paths] if nfiles == 1 else [paths, paths[::-1]]):
                    for b in ("alpha-g-trg-scalers", "alpha-g-vertices"):
                        cases += 1
                        rows, e = run_bin(bins[b], order, os.path.join(work, "out.csv"))
                        what = f"{b}, scenario `{name}`, {nfiles} file(s), order {[os.path.basename(x) for x in order]}"
                        if rows is None:
                            return _fail("c19_csv", target, bound, cases, f"{what}: binary failed: {e}", t0)
                        if [int(r["serial_number"]) for r in rows] != [s for s, _ in main_seq]:
                            return _fail("c19_csv", target, bound, cases, f"{what}: rows {[r['serial_number'] for r in rows]} are not one per main event in file order", t0)
                        for r, x, (serial, ts) in zip(rows, exp, main_seq):
                            got = r["trg_time"]
                            if x is None:
                                if got != "":
                                    return _fail("c19_csv", target, bound, cases, f"{what}: undecodable event {serial} has trg_time {got}", t0)
                            elif got == "" or abs(float(got) - x) > 1e-9 * max(1.0, x):
                                return _fail("c19_csv", target, bound, cases, f"{what}: event {serial} trg_time {got!r}, expected {x!r} (timestamps {seq})", t0)
                        # the data rows are byte-identical for every worker-thread count (the `#` header echoes the command line)
                        if nfiles == 2 and order is not paths:
                            ref = None
                            for nt in ("1", "2", "5", "16"):
                                out = os.path.join(work, f"out_t{nt}.csv")
                                cases += 1
                                r = subprocess.run([bins[b]] + order + ["--output", out], capture_output=True, text=True, timeout=600,
                                                   env=dict(os.environ, RAYON_NUM_THREADS=nt))
                                if r.returncode != 0 or not os.path.exists(out):
                                    return _fail("c19_csv", target, bound, cases, f"{what}: binary failed with RAYON_NUM_THREADS={nt}: {r.stderr[-200:]}", t0)
                                body = b"\n".join(l for l in open(out, "rb").read().split(b"\n") if not l.startswith(b"#"))
                                if ref is None:
                                    ref = body
                                elif body != ref:
                                    return _fail("c19_csv", target, bound, cases, f"{what}: output with RAYON_NUM_THREADS={nt} differs from the output with 1 thread", t0)
    finally:
        shutil.rmtree(work, ignore_errors=True)
    return {"name": "c19_csv", "status": "bounded-ok", "target": target, "bound": bound, "cases": cases, "distinct": cases, "time_s": round(time.time() - t0, 1)}


def _fail(name, target, bound, cases, reason, t0):
    return {"name": name, "status": "failed", "target": target, "bound": bound, "cases": cases, "distinct": cases, "reason": reason,
            "witness": None, "time_s": round(time.time() - t0, 1)}


# ---------------------------------------------------------------------------------------------- C20
H = 1 << 23


def cb_marker(k: int) -> bytes:
    return struct.pack("<I", 0xFF000000 | ((k & 1) << 23) | (k & 0x7FFFFF))


def cb_ts(ch: int, tick: int, trailing: bool = False) -> bytes:
    return struct.pack("<I", ((0x80 | ch) << 24) | ((tick & 0xFFFFFE) | (1 if trailing else 0)))


def c20_csv(repo: str, verif: str, tier: str) -> dict:
    """faithful hardware-model streams: marker k at tick (k+1)*2^23; edges at chosen ticks incl. the half-wrap boundaries"""
    t0 = time.time()
    target = "alpha-g-chronobox-timestamps (real binary) on synthetic MIDAS files"
    bound = "hardware-model streams of 9 half wraps with edges at / next to every half-wrap boundary, with and without scaler blocks, cut into banks of irregular sizes over 2 files; one stream without closing marker; nine single faults (truncated entry, truncated scaler block, no counter-0 marker, two foreign words, counter-0 marker with top bit set, three scaler tags with a wrong count field) that must fail without a CSV; a dropped and a duplicated marker; two boards interleaved"
    bins, err = build(repo, verif, ["alpha-g-chronobox-timestamps"])
    if bins is None:
        return {"name": "c20_csv", "status": "undecided", "reason": "binary does not build: " + err, "target": target, "bound": bound}
    exe = bins["alpha-g-chronobox-timestamps"]
    work = tempfile.mkdtemp(prefix="verif-c20-")
    cases = 0
    try:
        for with_scalers in (False, True):
            for closing in (True, False):
                words = b""
                rows = []           # (channel, leading, expected ticks or None)
                words += cb_ts(1, 77)          # before the counter-0 marker: no row
                nm = 9
                for k in range(nm):
                    words += cb_marker(k)
                    if k == nm - 1 and closing:
                        break
                    base = (k + 1) * H
                    ticks = [base, base + 2, base + H // 2, base + H - 2]
                    for j, t in enumerate(ticks):
                        ch = (k * 4 + j) % 59
                        trailing = (j % 2 == 1)
                        words += cb_ts(ch, t, trailing)
                        enclosed = (k < nm - 1)
                        rows.append((ch, not trailing, (t & ~1) if enclosed else None))
                    if with_scalers and k % 3 == 1:
                        words += struct.pack("<I", 0xFE00003C) + bytes((i * 5 + 1) & 0xFF for i in range(240))
                sizes = [5, 1, 243, 7, 1024, 3, 64, 2, 4099]
                pieces = []
                at = i = 0
                while at < len(words):
                    n = min(sizes[i % len(sizes)], len(words) - at)
                    pieces.append(words[at:at + n])
                    at += n
                    i += 1
                half = max(1, len(pieces) // 2)
                paths = []
                for fi, part in enumerate([pieces[:half], pieces[half:]]):
                    evs = [event(1, 0, 10, [bank("CBF1", b"\xAA" * 8)])]       # a main event with a same-named bank: ignored
                    for kk in range(0, len(part), 2):
                        evs.append(event(4, kk, 10, [bank("CBF1", p) for p in part[kk:kk + 2]]))
                    p = os.path.join(work, f"run00042sub{fi:03}.mid")
                    open(p, "wb").write(midas(42, 100 + 2 * fi, 101 + 2 * fi, evs))
                    paths.append(p)
                cases += 1
                got, e = run_bin(exe, paths[::-1], os.path.join(work, "out.csv"))
                what = f"stream with{'' if with_scalers else 'out'} scaler blocks, {'closed by a marker' if closing else 'ending with timestamps'}"
                if got is None:
                    return _fail("c20_csv", target, bound, cases, f"{what}: binary failed: {e}", t0)
                if len(got) != len(rows):
                    return _fail("c20_csv", target, bound, cases, f"{what}: {len(got)} rows for {len(rows)} timestamps after the counter-0 marker", t0)
                for g, (ch, leading, ticks) in zip(got, rows):
                    if g["board"] != "cb01" or int(g["channel"]) != ch or (g["leading_edge"] == "true") != leading:
                        return _fail("c20_csv", target, bound, cases, f"{what}: row {g} does not match channel {ch}, leading {leading}", t0)
                    if ticks is None:
                        if g["chronobox_time"] != "":
                            return _fail("c20_csv", target, bound, cases, f"{what}: timestamp without enclosing markers has a time {g}", t0)
                    elif g["chronobox_time"] == "" or abs(float(g["chronobox_time"]) - ticks / 10e6) > 1e-9:
                        return _fail("c20_csv", target, bound, cases, f"{what}: channel {ch}: chronobox_time {g['chronobox_time']!r}, true time {ticks / 10e6!r}", t0)
        # ---- every single fault of the statement: the program must fail and must not leave a CSV behind
        def good(nm=4):
            w = b""
            for k in range(nm):
                w += cb_marker(k)
                if k < nm - 1:
                    w += cb_ts(k % 59, (k + 1) * H + 10)
            return w
        scal = struct.pack("<I", 0xFE00003C) + bytes(range(240))
        faults = [
            ("stream ends inside an entry", good() + cb_ts(3, 5 * H + 10)[:2]),
            ("stream ends inside a scaler block", good() + scal[:100]),
            ("no counter-0 marker", cb_marker(1) + cb_ts(2, 2 * H + 10) + cb_marker(2)),
            ("word that is neither timestamp, marker nor scaler tag", good()[:8] + struct.pack("<I", 0x7F000010) + good()[8:]),
            ("channel number 59 (not a timestamp word)", good()[:8] + struct.pack("<I", ((0x80 | 59) << 24) | 0x10) + good()[8:]),
            ("counter-0 marker with its top bit set", struct.pack("<I", 0xFF000000 | (1 << 23)) + cb_ts(1, H + 10) + cb_marker(1)),
            # a scaler tag whose count field is not 60 is not a scaler block, whatever follows it
            ("scaler tag with a flipped count bit (0xFE00003D), followed by a complete block of data and more entries",
             good()[:8] + struct.pack("<I", 0xFE00003D) + bytes(range(240)) + cb_ts(7, 2 * H + 20) + good()[8:]),
            ("stray word 0xFE000040 followed by 70 timestamps", good()[:8] + struct.pack("<I", 0xFE000040) + b"".join(cb_ts(i % 59, 2 * H + 2 * i) for i in range(70)) + good()[8:]),
            ("scaler tag with count 59 followed by 61 words", good()[:8] + struct.pack("<I", 0xFE00003B) + bytes(244) + good()[8:]),
        ]
        for what, words in faults:
            p = os.path.join(work, "run00043sub000.mid")
            open(p, "wb").write(midas(43, 100, 101, [event(4, 0, 10, [bank("CBF1", words)])]))
            out = os.path.join(work, "fault.csv")
            if os.path.exists(out):
                os.remove(out)
            cases += 1
            r = subprocess.run([exe, p, "--output", out], capture_output=True, text=True, timeout=600)
            if r.returncode == 0 or os.path.exists(out):
                return _fail("c20_csv", target, bound, cases, f"fault `{what}`: exit status {r.returncode}, CSV written: {os.path.exists(out)} (must fail without writing a CSV)", t0)
        # ---- a dropped and a duplicated marker: the timestamps next to the gap get an empty time, never a wrong one
        def ts_at(k, off=10):
            return cb_ts(k % 59, (k + 1) * H + off)
        streams = [
            ("marker 2 dropped", [cb_marker(0), ts_at(0), cb_marker(1), ts_at(1), ts_at(2), cb_marker(3), ts_at(3), cb_marker(4)],
             [(0, True), (1, False), (2, False), (3, True)]),
            ("marker 2 duplicated around a timestamp", [cb_marker(0), ts_at(0), cb_marker(1), ts_at(1), cb_marker(2), ts_at(2), cb_marker(2), ts_at(2, 20), cb_marker(3)],
             [(0, True), (1, True), (2, False), (2, True)]),
        ]
        for what, parts, exp in streams:
            p = os.path.join(work, "run00045sub000.mid")
            open(p, "wb").write(midas(45, 100, 101, [event(4, 0, 10, [bank("CBF1", b"".join(parts))])]))
            cases += 1
            got, e = run_bin(exe, [p], os.path.join(work, "gap.csv"))
            if got is None:
                return _fail("c20_csv", target, bound, cases, f"{what}: binary failed: {e}", t0)
            if len(got) != len(exp):
                return _fail("c20_csv", target, bound, cases, f"{what}: {len(got)} rows for {len(exp)} timestamps", t0)
            offs = iter([10, 10, 10, 20] if "duplicated" in what else [10, 10, 10, 10])
            for g, (k, timed) in zip(got, exp):
                off = next(offs)
                true = (((k + 1) * H + off) & ~1) / 10e6
                if g["chronobox_time"] != "" and abs(float(g["chronobox_time"]) - true) > 1e-9:
                    return _fail("c20_csv", target, bound, cases, f"{what}: wrong time {g['chronobox_time']} for the edge at {true}", t0)
                if (g["chronobox_time"] != "") != timed:
                    return _fail("c20_csv", target, bound, cases, f"{what}: edge after marker {k}: time {'missing' if timed else 'reported'} ({g['chronobox_time']!r})", t0)
        # ---- two boards in one run: rows grouped by board, each in stream order
        wa, wb = good(5), good(3)
        p = os.path.join(work, "run00044sub000.mid")
        open(p, "wb").write(midas(44, 100, 101, [event(4, 0, 10, [bank("CBF2", wb[:12]), bank("CBF1", wa[:20])]), event(4, 1, 11, [bank("CBF1", wa[20:]), bank("CBF2", wb[12:])])]))
        cases += 1
        got, e = run_bin(exe, [p], os.path.join(work, "two.csv"))
        if got is None:
            return _fail("c20_csv", target, bound, cases, f"two boards: binary failed: {e}", t0)
        want = [("cb01", k % 59) for k in range(4)] + [("cb02", k % 59) for k in range(2)]
        if [(g["board"], int(g["channel"])) for g in got] != want:
            return _fail("c20_csv", target, bound, cases, f"two boards: rows {[(g['board'], g['channel']) for g in got]} are not grouped by board in stream order {want}", t0)
    finally:
        shutil.rmtree(work, ignore_errors=True)
    return {"name": "c20_csv", "status": "bounded-ok", "target": target, "bound": bound, "cases": cases, "distinct": cases, "time_s": round(time.time() - t0, 1)}


CHECKS = {"c19_csv": c19_csv, "c20_csv": c20_csv}
