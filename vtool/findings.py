"""known_findings.txt: `known: property=<id> obligation=<substring> [witness=<text>] -- description`
   and `fixed: property=<id> <commit> <what failed>` (fixed entries suppress nothing)."""
import re
from dataclasses import dataclass
from typing import List, Optional


@dataclass
class Known:
    prop: str
    obligation: str
    witness: Optional[str]
    text: str


class Findings:
    def __init__(self):
        self.known: List[Known] = []
        self.fixed: List[str] = []

    def match(self, prop: str, v: dict) -> Optional[Known]:
        for k in self.known:
            if k.prop != prop:
                continue
            if k.obligation and k.obligation == v.get("obligation", ""):
                return k
        return None


def load_findings(path: str) -> Findings:
    f = Findings()
    try:
        lines = open(path).read().split("\n")
    except FileNotFoundError:
        return f
    for l in lines:
        l = l.strip()
        if l.startswith("known:"):
            m = re.match(r"known:\s+property=(\S+)\s+obligation=(\S+)\s*(.*)$", l)
            if m:
                f.known.append(Known(m.group(1), m.group(2), None, f"obligation={m.group(2)} {m.group(3)}".strip()))
        elif l.startswith("fixed:"):
            f.fixed.append(l)
    return f
