"""Minimal Rust lexer + item locator used by the extractor.

Tokens keep their byte offsets into the source so that every cut that the
extractor makes can be reported as a byte range of the file in /repo.  The
lexer knows comments (nested block comments), string / raw string / byte
string literals, char literals versus lifetimes, numbers, identifiers and
single-character punctuation.  Multi-character operators are *not* fused:
brace matching and the rewrite rules only need single characters, and rules
that look for `::`, `..`, `!=`, `->` test adjacent tokens (`adj`).
"""
from __future__ import annotations
import re
from dataclasses import dataclass, field
from typing import List, Optional, Tuple


class LexError(Exception):
    pass


@dataclass
class Tok:
    kind: str   # ident | num | str | char | life | punct | comment | doc
    text: str
    pos: int    # byte offset of first char
    ws: str = ""  # whitespace (and nothing else) preceding the token

    @property
    def end(self) -> int:
        return self.pos + len(self.text)

    def __repr__(self):
        return f"{self.kind}:{self.text!r}"


_ident_re = re.compile(r"[A-Za-z_][A-Za-z0-9_]*")
_num_re = re.compile(
    r"0x[0-9a-fA-F_]+(?:[iu](?:8|16|32|64|128|size))?"
    r"|0b[01_]+(?:[iu](?:8|16|32|64|128|size))?"
    r"|0o[0-7_]+(?:[iu](?:8|16|32|64|128|size))?"
    r"|[0-9][0-9_]*(?:\.(?![.A-Za-z_])[0-9_]*)?(?:[eE][+-]?[0-9_]+)?(?:[iuf](?:8|16|32|64|128|size))?"
)


def lex(src: str, keep_comments: bool = False) -> List[Tok]:
    toks: List[Tok] = []
    i, n = 0, len(src)
    ws_start = 0
    while i < n:
        c = src[i]
        if c in " \t\r\n":
            i += 1
            continue
        ws = src[ws_start:i]
        start = i
        kind = None
        if src.startswith("//", i):
            j = src.find("\n", i)
            if j < 0:
                j = n
            text = src[i:j]
            is_doc = (text.startswith("///") and not text.startswith("////")) or text.startswith("//!")
            kind = "doc" if is_doc else "comment"
            i = j
        elif src.startswith("/*", i):
            depth, j = 1, i + 2
            while j < n and depth:
                if src.startswith("/*", j):
                    depth += 1
                    j += 2
                elif src.startswith("*/", j):
                    depth -= 1
                    j += 2
                else:
                    j += 1
            if depth:
                raise LexError("unterminated block comment")
            text = src[i:j]
            kind = "doc" if (text.startswith("/**") and not text.startswith("/***")) or text.startswith("/*!") else "comment"
            i = j
        elif c == '"' or (c in "br" and _is_str_start(src, i)):
            j = _scan_string(src, i)
            kind = "str"
            i = j
        elif c == "'" or (c == "b" and i + 1 < n and src[i + 1] == "'"):
            j = i + (2 if c == "b" else 1)
            # char literal or lifetime
            if c == "'" and _ident_re.match(src, j) and not _is_char_lit(src, j):
                m = _ident_re.match(src, j)
                kind = "life"
                i = m.end()
            else:
                if src[j] == "\\":
                    j += 2
                    while j < n and src[j] != "'":
                        j += 1
                else:
                    j += 1
                    while j < n and src[j] != "'":  # multi-byte utf-8 char
                        j += 1
                if j >= n:
                    raise LexError(f"unterminated char literal at {start}")
                kind = "char"
                i = j + 1
        elif c.isdigit():
            m = _num_re.match(src, i)
            kind = "num"
            i = m.end()
        elif c.isalpha() or c == "_" or ord(c) > 127:
            m = _ident_re.match(src, i)
            if not m:
                raise LexError(f"bad character {c!r} at {i}")
            if src.startswith("r#", i) and _ident_re.match(src, i + 2) and m.end() == i + 1:
                m = _ident_re.match(src, i + 2)
            kind = "ident"
            i = m.end()
        else:
            kind = "punct"
            i += 1
        text = src[start:i]
        if kind in ("comment", "doc") and not keep_comments:
            # whitespace run continues across the dropped comment, but keep
            # the newlines so that line numbers of later tokens are stable
            continue_ws = ws + "".join(ch for ch in text if ch == "\n")
            # emulate by rewinding ws_start: we cannot, so stash in pending
            toks.append(Tok("_skip", continue_ws, start))
        else:
            toks.append(Tok(kind, text, start, ws))
        ws_start = i
    # fold _skip pseudo tokens into following token's ws
    out: List[Tok] = []
    pending = ""
    for t in toks:
        if t.kind == "_skip":
            pending += t.text
        else:
            if pending:
                t.ws = pending + t.ws
                pending = ""
            out.append(t)
    return out


def _is_str_start(src: str, i: int) -> bool:
    m = re.match(r'b?r?#*"', src[i:i + 12])
    if not m:
        return False
    # `r` alone followed by ident chars is an identifier
    return True


def _scan_string(src: str, i: int) -> int:
    m = re.match(r'(b?)(r?)(#*)"', src[i:i + 40])
    raw, hashes = m.group(2), m.group(3)
    j = i + m.end()
    n = len(src)
    if raw:
        term = '"' + hashes
        k = src.find(term, j)
        if k < 0:
            raise LexError("unterminated raw string")
        return k + len(term)
    while j < n:
        if src[j] == "\\":
            j += 2
        elif src[j] == '"':
            return j + 1
        else:
            j += 1
    raise LexError("unterminated string")


def _is_char_lit(src: str, j: int) -> bool:
    # at src[j] an identifier starts after a quote; it is a char literal
    # iff exactly one char is followed by a closing quote
    return j + 1 < len(src) and src[j + 1] == "'"


def render(toks: List[Tok]) -> str:
    return "".join(t.ws + t.text for t in toks)


OPEN = {"(": ")", "[": "]", "{": "}"}
CLOSE = {")": "(", "]": "[", "}": "{"}


def match_close(toks: List[Tok], i: int) -> int:
    """index of the token closing the bracket opened at toks[i]"""
    assert toks[i].kind == "punct" and toks[i].text in OPEN, toks[i]
    depth = 0
    for j in range(i, len(toks)):
        t = toks[j]
        if t.kind != "punct":
            continue
        if t.text in OPEN:
            depth += 1
        elif t.text in CLOSE:
            depth -= 1
            if depth == 0:
                if OPEN[toks[i].text] != t.text:
                    raise LexError(f"mismatched bracket at {t.pos}")
                return j
    raise LexError(f"unclosed bracket at {toks[i].pos}")


def match_open(toks: List[Tok], i: int) -> int:
    assert toks[i].kind == "punct" and toks[i].text in CLOSE
    depth = 0
    for j in range(i, -1, -1):
        t = toks[j]
        if t.kind != "punct":
            continue
        if t.text in CLOSE:
            depth += 1
        elif t.text in OPEN:
            depth -= 1
            if depth == 0:
                return j
    raise LexError("unopened bracket")


def is_p(t: Tok, s: str) -> bool:
    return t.kind == "punct" and t.text == s


def adj(toks: List[Tok], i: int, s: str) -> bool:
    """do tokens i.. spell the multi-char operator s with no whitespace between"""
    if i + len(s) > len(toks):
        return False
    for k, ch in enumerate(s):
        t = toks[i + k]
        if not is_p(t, ch):
            return False
        if k and t.ws:
            return False
    return True


@dataclass
class Item:
    kind: str               # struct enum impl fn const static use mod type trait macro
    name: str               # identifier, or normalised impl header
    attrs: List[List[Tok]]  # each attribute `#[...]` as token list
    toks: List[Tok]         # tokens of the item without attributes (incl. visibility)
    start: int              # byte offsets (incl. attributes)
    end: int
    children: List["Item"] = field(default_factory=list)   # impl / mod members
    body_open: Optional[int] = None   # index in toks of `{` for fn/impl/mod

    def header(self) -> str:
        if self.body_open is None:
            return norm(self.toks)
        return norm(self.toks[: self.body_open])


def norm(toks: List[Tok]) -> str:
    """whitespace-normalised spelling, used to name impl headers"""
    out = []
    for t in toks:
        out.append(t.text)
    s = " ".join(out)
    for a, b in ((" :: ", "::"), (" < ", "<"), (" > ", ">"), ("< ", "<"), (" >", ">"), ("& ", "&"),
                 (" ,", ","), ("( ", "("), (" )", ")"), ("[ ", "["), (" ]", "]"), (" ;", ";"), ("> for", "> for")):
        s = s.replace(a, b)
    s = s.replace(">for", "> for")
    return s


ITEM_KW = {"struct", "enum", "impl", "fn", "const", "static", "use", "mod", "type", "trait", "union"}


def parse_items(toks: List[Tok], lo: int = 0, hi: Optional[int] = None) -> List[Item]:
    if hi is None:
        hi = len(toks)
    items: List[Item] = []
    i = lo
    while i < hi:
        attrs = []
        start_tok = i
        while i < hi and is_p(toks[i], "#"):
            j = i + 1
            if is_p(toks[j], "!"):
                j += 1
            if not is_p(toks[j], "["):
                raise LexError(f"bad attribute at {toks[i].pos}")
            k = match_close(toks, j)
            attrs.append(toks[i:k + 1])
            i = k + 1
        if i >= hi:
            break
        item_lo = i
        # visibility / qualifiers
        while i < hi and toks[i].kind == "ident" and toks[i].text in ("pub", "unsafe", "async", "extern", "default"):
            i += 1
            if i < hi and is_p(toks[i], "(") and toks[i - 1].text == "pub":
                i = match_close(toks, i) + 1
            if i < hi and toks[i].kind == "str" and toks[i - 1].text == "extern":
                i += 1
        if i >= hi:
            raise LexError("dangling qualifiers")
        t = toks[i]
        kind = None
        if t.kind == "ident" and t.text == "const" and i + 1 < hi and toks[i + 1].kind == "ident" and toks[i + 1].text == "fn":
            i += 1
            t = toks[i]
        if t.kind == "ident" and t.text in ITEM_KW:
            kind = t.text
        elif t.kind == "ident" and i + 1 < hi and is_p(toks[i + 1], "!"):
            kind = "macro"
        else:
            raise LexError(f"unrecognised item start {t!r} at byte {t.pos}")
        kw_i = i
        # find end
        j = i + 1
        body_open = None
        end_i = None
        if kind == "macro":
            j = i + 2
            if toks[j].kind == "ident":
                j += 1  # macro_rules! name
            k = match_close(toks, j)
            body_open = j
            end_i = k
            if not is_p(toks[j], "{") and k + 1 < hi and is_p(toks[k + 1], ";"):
                end_i = k + 1
        else:
            while j < hi:
                tj = toks[j]
                if tj.kind == "punct":
                    if tj.text == ";":
                        end_i = j
                        break
                    if tj.text in OPEN:
                        k = match_close(toks, j)
                        if tj.text == "{" and kind in ("struct", "enum", "impl", "fn", "mod", "trait", "union"):
                            body_open = j
                            end_i = k
                            break
                        j = k + 1
                        continue
                j += 1
            if end_i is None:
                raise LexError(f"item without end at byte {toks[kw_i].pos}")
        name = ""
        if kind in ("struct", "enum", "fn", "const", "static", "mod", "type", "trait", "union"):
            name = toks[kw_i + 1].text
        elif kind == "impl":
            name = norm(toks[kw_i:body_open])
        elif kind == "macro":
            name = toks[kw_i].text
        it = Item(kind, name, attrs, toks[item_lo:end_i + 1],
                  toks[start_tok].pos, toks[end_i].end,
                  body_open=(body_open - item_lo) if body_open is not None else None)
        if kind in ("impl", "mod", "trait") and body_open is not None:
            it.children = parse_items(toks, body_open + 1, end_i)
        items.append(it)
        i = end_i + 1
    return items


def line_of(src: str, pos: int) -> int:
    return src.count("\n", 0, pos) + 1
