#!/usr/bin/env python3
"""print a rust file without comments/doc comments and blank-line runs (for reading)"""
import sys, re
sys.path.insert(0, __file__.rsplit('/',2)[0])
from vtool.rslex import lex, render
src=open(sys.argv[1]).read()
out=render(lex(src))
out=re.sub(r"\n\s*\n(\s*\n)+", "\n", out)
out=re.sub(r"\n[ \t]*\n", "\n", out)
lo=int(sys.argv[2]) if len(sys.argv)>2 else 0
hi=int(sys.argv[3]) if len(sys.argv)>3 else 10**9
print("\n".join(out.split("\n")[lo:hi]))
