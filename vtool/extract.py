"""Mechanical extraction of functions from /repo into a single Verus file.

Everything in the generated file that is executable code comes from the
tokens of the repository file, modified only by the rules R1..R8 below (each
application is counted and reported).  Contracts come from the .vspec file.
A construct the rules do not know makes the extractor raise `Undecided`
(exit 2 of the check), never a violation.
"""
from __future__ import annotations
import hashlib
import os
import re
from dataclasses import dataclass, field
from typing import Dict, List, Optional, Tuple

from .rslex import (Tok, Item, lex, parse_items, render, match_close, match_open, is_p, adj,
                    line_of, norm, LexError, OPEN, CLOSE)
from .vspec import UnitSpec, FnSpec, Clause, Lift, WrapSpec


class Undecided(Exception):
    """lost anchor / unsupported construct: the check exits 2"""


KEEP_DERIVES = {"Clone", "Copy", "Debug", "PartialEq", "Eq", "Hash", "PartialOrd", "Ord", "Default"}
INT_TYPES = {"u8", "u16", "u32", "u64", "u128", "usize", "i8", "i16", "i32", "i64", "i128", "isize"}


def syn(text: str, pos: int, ws: str = "", tag: Optional[str] = None) -> Tok:
    t = Tok("syn", text, pos, ws)
    t.tag = tag  # type: ignore
    return t


class Source:
    def __init__(self, repo: str, rel: str):
        self.rel = rel
        self.path = os.path.join(repo, rel)
        if not os.path.exists(self.path):
            raise Undecided(f"lost anchor: source file {rel} does not exist")
        self.src = open(self.path).read()
        self.sha = hashlib.sha256(self.src.encode()).hexdigest()
        try:
            self.toks = lex(self.src)
            self.items = parse_items(self.toks)
        except LexError as e:
            raise Undecided(f"cannot lex/parse {rel}: {e}")

    def line(self, pos: int) -> int:
        return line_of(self.src, pos)

    def find_type(self, kind: str, name: str) -> Item:
        for it in self.items:
            if it.kind == kind and it.name == name:
                return it
        raise Undecided(f"lost anchor: {kind} {name} not found in {self.rel}")

    def find_const(self, name: str) -> Item:
        for it in self.items:
            if it.kind in ("const", "static") and it.name == name:
                return it
        raise Undecided(f"lost anchor: const {name} not found in {self.rel}")

    def find_impl(self, header: str) -> List[Item]:
        want = norm(lex(header))
        out = [it for it in self.items if it.kind == "impl" and it.name == want]
        if not out:
            raise Undecided(f"lost anchor: `{want}` not found in {self.rel}")
        return out

    def find_fn(self, header: Optional[str], name: str) -> Tuple[Optional[Item], Item]:
        if header is None:
            for it in self.items:
                if it.kind == "fn" and it.name == name:
                    return None, it
            raise Undecided(f"lost anchor: fn {name} not found in {self.rel}")
        for imp in self.find_impl(header):
            for ch in imp.children:
                if ch.kind == "fn" and ch.name == name:
                    return imp, ch
        raise Undecided(f"lost anchor: fn {name} not found in `{header}` of {self.rel}")


class Out:
    """generated text with a map  generated line -> origin"""

    def __init__(self):
        self.parts: List[str] = []
        self.line = 1
        self.map: Dict[int, dict] = {}

    def text(self, s: str, **tag):
        if tag:
            # tag every line this text touches
            n = s.count("\n")
            for l in range(self.line, self.line + n + (0 if s.endswith("\n") else 1)):
                self.map.setdefault(l, dict(tag))
        self.parts.append(s)
        self.line += s.count("\n")

    def toks(self, toks: List[Tok], srcobj: Source, fn: str):
        for t in toks:
            self.parts.append(t.ws)
            self.line += t.ws.count("\n")
            if t.kind == "syn":
                tag = getattr(t, "tag", None)
                n = t.text.count("\n")
                for l in range(self.line, self.line + n + 1):
                    if tag and tag.startswith("LABEL:"):
                        self.map[l] = {"kind": "label", "label": tag[6:], "fn": fn, "clause": "invariant"}
                    elif tag:
                        self.map[l] = {"kind": "inj", "label": tag, "fn": fn}
                    else:
                        self.map.setdefault(l, {"kind": "src", "file": srcobj.rel, "line": srcobj.line(t.pos), "fn": fn})
            else:
                self.map.setdefault(self.line, {"kind": "src", "file": srcobj.rel, "line": srcobj.line(t.pos), "fn": fn})
            self.parts.append(t.text)
            self.line += t.text.count("\n")

    def render(self) -> str:
        return "".join(self.parts)


@dataclass
class Report:
    sources: Dict[str, str] = field(default_factory=dict)            # rel -> sha256
    cuts: List[dict] = field(default_factory=list)                   # {item, file, bytes:[a,b], lines:[a,b]}
    rules: Dict[str, int] = field(default_factory=dict)
    lifts: List[dict] = field(default_factory=list)
    dropped: Dict[str, int] = field(default_factory=dict)
    fns: List[dict] = field(default_factory=list)                    # {qual, gen_name, line_lo, line_hi, labels}

    def rule(self, r: str, n: int = 1):
        if n:
            self.rules[r] = self.rules.get(r, 0) + n

    def drop(self, r: str, n: int = 1):
        if n:
            self.dropped[r] = self.dropped.get(r, 0) + n


# ----------------------------------------------------------------------------
# token helpers

def _stop(t: Tok) -> Tok:
    t.stop = True      # type: ignore   (proof blocks anchored at the loop body start are placed in front of this token)
    return t


def compact(toks: List[Tok]) -> str:
    out = ""
    prev = None
    for t in toks:
        if prev is not None and prev.kind in ("ident", "num") and t.kind in ("ident", "num"):
            out += " "
        out += t.text
        prev = t
    return out


def strip_vis(toks: List[Tok]) -> List[Tok]:
    """drop `pub` / `pub(crate)` at the start of an item"""
    i = 0
    out = list(toks)
    if out and out[0].kind == "ident" and out[0].text == "pub":
        ws = out[0].ws
        j = 1
        if j < len(out) and is_p(out[j], "("):
            j = match_close(out, j) + 1
        out = out[j:]
        if out:
            out[0] = Tok(out[0].kind, out[0].text, out[0].pos, ws)
    return out


def split_top(toks: List[Tok], sep: str) -> List[List[Tok]]:
    """split at separator tokens at bracket depth 0 (angle brackets are tracked for `,`)"""
    parts, cur, depth, ang = [], [], 0, 0
    for k, t in enumerate(toks):
        if t.kind == "punct":
            if t.text in OPEN:
                depth += 1
            elif t.text in CLOSE:
                depth -= 1
            elif t.text == "<":
                ang += 1
            elif t.text == ">" and ang > 0 and not (k and is_p(toks[k - 1], "-")):
                ang -= 1
            elif t.text == sep and depth == 0 and ang == 0:
                parts.append(cur)
                cur = []
                continue
        cur.append(t)
    parts.append(cur)
    return parts


def filter_attrs(attrs: List[List[Tok]], rep: Report, structural_ok: bool = False, minus=()) -> Tuple[str, bool]:
    """-> (text of the attributes that are kept, had #[from])"""
    out = []
    for a in attrs:
        name = a[2].text if len(a) > 2 else ""
        if name == "derive":
            inner = a[4:-2]
            names = [norm(p) for p in split_top(inner, ",") if p]
            keep = [n for n in names if n.split("::")[-1] in KEEP_DERIVES and n.split("::")[-1] not in minus]
            for n in names:
                if n not in keep:
                    rep.drop(f"derive({n})")
            if structural_ok and "PartialEq" in [k.split("::")[-1] for k in keep] and "Eq" in [k.split("::")[-1] for k in keep]:
                # G3: rustc's derived PartialEq is structural equality; tell Verus so
                keep.append("Structural")
                rep.rule("G3 derive(Structural) added next to derive(PartialEq, Eq)")
            if keep:
                out.append("#[derive(" + ", ".join(keep) + ")]")
        elif name in ("error", "from", "serde", "allow", "doc", "inline", "must_use", "non_exhaustive", "source"):
            rep.drop(f"#[{name}]")
        elif name == "repr":
            out.append(render(a).strip())
        else:
            raise Undecided(f"unsupported attribute #[{name}]")
    return ("\n".join(out) + ("\n" if out else "")), False


def clean_type_body(toks: List[Tok], rep: Report, make_pub: bool, froms: List[Tuple[str, Optional[str], str]],
                    enum_name: Optional[str]) -> List[Tok]:
    """inside a struct/enum body: drop attributes and visibility, optionally add `pub` to fields.
    Records `#[from]` fields as (variant, fieldname|None, type)."""
    out: List[Tok] = []
    i = 0
    n = len(toks)
    pending_from = False
    cur_variant = None
    depth = 0
    while i < n:
        t = toks[i]
        if is_p(t, "#") and i + 1 < n and is_p(toks[i + 1], "["):
            k = match_close(toks, i + 1)
            name = toks[i + 2].text
            if name == "from":
                pending_from = True
            elif name not in ("error", "serde", "doc", "source", "allow", "default"):
                raise Undecided(f"unsupported attribute #[{name}] inside type body")
            rep.drop(f"#[{name}]")
            # keep whitespace position of the dropped attr on the next token
            ws = t.ws
            i = k + 1
            if i < n:
                toks[i] = Tok(toks[i].kind, toks[i].text, toks[i].pos, ws)
            continue
        if t.kind == "ident" and t.text == "pub":
            ws = t.ws
            i += 1
            if i < n and is_p(toks[i], "("):
                i = match_close(toks, i) + 1
            if i < n:
                toks[i] = Tok(toks[i].kind, toks[i].text, toks[i].pos, ws)
            continue
        if t.kind == "punct" and t.text in OPEN:
            depth += 1
        elif t.kind == "punct" and t.text in CLOSE:
            depth -= 1
        if enum_name is not None and depth == 1 and t.kind == "ident" and (is_p(out[-1], "{") or is_p(out[-1], ",")):
            cur_variant = t.text
        if pending_from:
            # t starts either `name: Type` or `Type`
            j = i
            d = 0
            while j < n:
                tj = toks[j]
                if tj.kind == "punct":
                    if tj.text in OPEN:
                        d += 1
                    elif tj.text in CLOSE:
                        if d == 0:
                            break
                        d -= 1
                    elif tj.text == "," and d == 0:
                        break
                j += 1
            seg = toks[i:j]
            if len(seg) >= 2 and is_p(seg[1], ":") and not is_p(seg[2], ":"):
                froms.append((cur_variant, seg[0].text, norm(seg[2:])))
            else:
                froms.append((cur_variant, None, norm(seg)))
            pending_from = False
        out.append(t)
        i += 1
    if make_pub:
        # named fields: ident ':' at depth 1 after '{' or ','; tuple fields: after '(' or ','
        res: List[Tok] = []
        depth = 0
        for k, t in enumerate(out):
            if t.kind == "punct" and t.text in CLOSE:
                depth -= 1
            if depth == 1 and k > 0 and (is_p(out[k - 1], "{") or is_p(out[k - 1], "(") or is_p(out[k - 1], ",")) \
                    and not (t.kind == "punct" and t.text in CLOSE):
                res.append(Tok("ident", "pub", t.pos, t.ws))
                res.append(Tok(t.kind, t.text, t.pos, " "))
            else:
                res.append(t)
            if t.kind == "punct" and t.text in OPEN:
                depth += 1
        out = res
    return out


# ----------------------------------------------------------------------------
# expression geometry (for lifts and R2/R3)

def chain_start(toks: List[Tok], i: int) -> int:
    """toks[i] is the last token of a postfix receiver; return index of its first token"""
    j = i
    while True:
        t = toks[j]
        if t.kind == "punct" and t.text in (")", "]"):
            j = match_open(toks, j)
            # call or index: continue to callee / base if there is one
            p = toks[j - 1] if j > 0 else None
            if p is not None and (p.kind in ("ident",) or (p.kind == "punct" and p.text in (")", "]", ">"))):
                if p.kind == "punct" and p.text == ">":
                    # turbofish  ::<..>
                    d, k = 0, j - 1
                    while k >= 0:
                        if is_p(toks[k], ">"):
                            d += 1
                        elif is_p(toks[k], "<"):
                            d -= 1
                            if d == 0:
                                break
                        k -= 1
                    if k >= 2 and adj(toks, k - 2, "::"):
                        j = k - 3
                        continue
                    return j
                j -= 1
                continue
            return j
        if t.kind in ("ident", "num", "str", "char"):
            # path / field access to the left?
            if j >= 2 and adj(toks, j - 2, "::"):
                j -= 3
                continue
            if j >= 1 and is_p(toks[j - 1], ".") and not (j >= 2 and is_p(toks[j - 2], ".")):
                j -= 2
                continue
            return j
        return j + 1 if j < i else j


def chain_end(toks: List[Tok], i: int) -> int:
    """toks[i] is the closing paren of a method call; extend over following postfix operators"""
    j = i
    n = len(toks)
    while j + 1 < n:
        t = toks[j + 1]
        if is_p(t, "?"):
            j += 1
        elif is_p(t, "[") or (is_p(t, "(")):
            j = match_close(toks, j + 1)
        elif is_p(t, ".") and j + 2 < n and toks[j + 2].kind in ("ident", "num") and not is_p(toks[j + 2], "."):
            if toks[j + 2].kind == "ident" and toks[j + 2].text == "await":
                break
            j += 2
            # turbofish
            if j + 2 < n and adj(toks, j + 1, "::") and is_p(toks[j + 3], "<"):
                d, k = 0, j + 3
                while k < n:
                    if is_p(toks[k], "<"):
                        d += 1
                    elif is_p(toks[k], ">"):
                        d -= 1
                        if d == 0:
                            break
                    k += 1
                j = k
        else:
            break
    return j


def has_range(toks: List[Tok], lo: int, hi: int) -> bool:
    """does the bracket group toks[lo..hi] contain `..` at its top level"""
    d = 0
    for k in range(lo + 1, hi):
        t = toks[k]
        if t.kind == "punct":
            if t.text in OPEN:
                d += 1
            elif t.text in CLOSE:
                d -= 1
            elif t.text == "." and d == 0 and is_p(toks[k + 1], ".") and not toks[k + 1].ws:
                return True
    return False


def seq_at(toks: List[Tok], i: int, spelled: List[str]) -> bool:
    if i + len(spelled) > len(toks):
        return False
    return all(toks[i + k].text == s for k, s in enumerate(spelled))


# ----------------------------------------------------------------------------
# rewrite rules on a function body

def rule_R1(toks: List[Tok], rep: Report) -> List[Tok]:
    out = []
    i = 0
    while i < len(toks):
        t = toks[i]
        if t.kind == "ident" and t.text in INT_TYPES and i + 3 < len(toks) and adj(toks, i + 1, "::") \
                and toks[i + 3].kind == "ident" and re.fullmatch(r"from_(le|be)_bytes", toks[i + 3].text):
            out.append(Tok("ident", f"ext_{t.text}_{toks[i + 3].text}", t.pos, t.ws))
            rep.rule("R1 from_xx_bytes -> ext wrapper")
            i += 4
            continue
        out.append(t)
        i += 1
    return out


def rule_R2(toks: List[Tok], rep: Report) -> List[Tok]:
    pat = [".", "try_into", "(", ")", ".", "unwrap", "(", ")"]
    i = 0
    toks = list(toks)
    while i < len(toks):
        if seq_at(toks, i, pat) and i > 0 and is_p(toks[i - 1], "]"):
            lo = match_open(toks, i - 1)
            if has_range(toks, lo, i - 1):
                s = chain_start(toks, i - 1)
                first = toks[s]
                new = toks[:s] + [syn("ext_slice_to_array(&", first.pos, first.ws),
                                  Tok(first.kind, first.text, first.pos, "")] + toks[s + 1:i] + \
                      [syn(")", toks[i].pos)] + toks[i + 8:]
                toks = new
                rep.rule("R2 slice[range].try_into().unwrap() -> ext_slice_to_array")
                i = i + 2
                continue
        i += 1
    return toks


def rule_R3(toks: List[Tok], rep: Report) -> List[Tok]:
    i = 0
    toks = list(toks)
    while i + 2 < len(toks):
        neg = adj(toks, i, "!=")
        eq = adj(toks, i, "==")
        if (neg or eq) and i > 0 and is_p(toks[i - 1], "]") and is_p(toks[i + 2], "["):
            lo = match_open(toks, i - 1)
            hi = match_close(toks, i + 2)
            lits = toks[i + 3:hi]
            if has_range(toks, lo, i - 1) and all(t.kind == "num" or is_p(t, ",") for t in lits):
                s = chain_start(toks, i - 1)
                first = toks[s]
                new = toks[:s] + [syn(("!" if neg else "") + "ext_slice_eq_arr(&", first.pos, first.ws),
                                  Tok(first.kind, first.text, first.pos, "")] + toks[s + 1:i] + \
                      [syn(", &", toks[i].pos)] + [Tok(toks[i + 2].kind, toks[i + 2].text, toks[i + 2].pos, "")] + \
                      toks[i + 3:hi + 1] + [syn(")", toks[hi].pos)] + toks[hi + 1:]
                toks = new
                rep.rule("R3 slice[range] ==/!= [lits] -> ext_slice_eq_arr")
                i = hi
                continue
        i += 1
    return toks


def subst_self_error(toks: List[Tok], err: List[Tok], rep: Report) -> List[Tok]:
    out = []
    i = 0
    while i < len(toks):
        if toks[i].kind == "ident" and toks[i].text == "Self" and adj(toks, i + 1, "::") and \
                i + 3 < len(toks) and toks[i + 3].text == "Error":
            for k, e in enumerate(err):
                out.append(Tok(e.kind, e.text, toks[i].pos, toks[i].ws if k == 0 else ""))
            rep.rule("R8 Self::Error -> concrete error type (inherent emission)")
            i += 4
            continue
        out.append(toks[i])
        i += 1
    return out


def apply_subst(toks: List[Tok], old: str, new: str, rep: Report, fn: str) -> List[Tok]:
    pat = [t.text for t in lex(old)]
    if not pat:
        raise Undecided("empty subst")
    out = []
    i = 0
    hits = 0
    while i < len(toks):
        if seq_at(toks, i, pat):
            out.append(_stop(syn(new, toks[i].pos, toks[i].ws)))      # substituted code is code, not a binding generated by a loop rule
            i += len(pat)
            hits += 1
            continue
        out.append(toks[i])
        i += 1
    if hits == 0:
        raise Undecided(f"lost anchor: subst `{old}` matches nothing in {fn}")
    rep.rule(f"subst `{old}` => `{new}` in {fn}", hits)
    return out


def find_let(toks: List[Tok], name: str, k: int) -> Tuple[int, int, int]:
    """k-th `let [mut] NAME[: T] = EXPR;` -> (index of let, index of first expr tok, index of ';')"""
    cnt = 0
    for i, t in enumerate(toks):
        if t.kind == "ident" and t.text == "let":
            j = i + 1
            if toks[j].text == "mut":
                j += 1
            if toks[j].kind == "ident" and toks[j].text == name and (is_p(toks[j + 1], ":") or is_p(toks[j + 1], "=")):
                cnt += 1
                if cnt == k:
                    # find '=' at depth 0
                    d = 0
                    e = j + 1
                    while not (is_p(toks[e], "=") and d == 0 and not is_p(toks[e + 1], "=")):
                        if toks[e].kind == "punct" and toks[e].text in OPEN:
                            d += 1
                        elif toks[e].kind == "punct" and toks[e].text in CLOSE:
                            d -= 1
                        e += 1
                    # find ';' at depth 0
                    s = e + 1
                    d = 0
                    while True:
                        ts = toks[s]
                        if ts.kind == "punct":
                            if ts.text in OPEN:
                                d += 1
                            elif ts.text in CLOSE:
                                d -= 1
                            elif ts.text == ";" and d == 0:
                                break
                        s += 1
                    return i, e + 1, s
    raise Undecided(f"lost anchor: let {name}#{k}")


def locate_lift(toks: List[Tok], lf: Lift, fn: str) -> Tuple[int, int]:
    if lf.mode == "let":
        _, lo, semi = find_let(toks, lf.key, lf.k)
        return lo, semi - 1
    cnt = 0
    for i, t in enumerate(toks):
        if t.kind == "ident" and t.text == lf.key and i > 0 and is_p(toks[i - 1], ".") and \
                (is_p(toks[i + 1], "(") or adj(toks, i + 1, "::")):
            cnt += 1
            if cnt == lf.k:
                lo = chain_start(toks, i - 2)
                j = i + 1
                if adj(toks, j, "::"):
                    d = 0
                    j += 2
                    while True:
                        if is_p(toks[j], "<"):
                            d += 1
                        elif is_p(toks[j], ">"):
                            d -= 1
                            if d == 0:
                                break
                        j += 1
                    j += 1
                hi = chain_end(toks, match_close(toks, j))
                return lo, hi
    raise Undecided(f"lost anchor: lift chain .{lf.key}( #{lf.k} in {fn}")


def apply_lifts(toks: List[Tok], lifts: List[Lift], rep: Report, fn: str, leafs: List[tuple]) -> List[Tok]:
    """ordinals refer to the function text as it is in /repo: all anchors are resolved first, then cut back to front"""
    locs = [(locate_lift(toks, lf, fn), lf) for lf in lifts]
    locs.sort(key=lambda x: x[0][0])
    for (a, b), (c, d) in zip([l[0] for l in locs], [l[0] for l in locs][1:]):
        if c <= b:
            raise Undecided(f"overlapping lifts in {fn}")
    pending = []
    for (lo, hi), lf in reversed(locs):
        stub = False
        if lf.sig.lstrip().startswith("stub "):
            stub = True
            lf = Lift(lf.mode, lf.key, lf.k, lf.sig.lstrip()[5:], lf.args)
        m = re.match(r"^\s*fn\s+([A-Za-z_][A-Za-z0-9_]*)\s*(<[^()]*>)?\s*\((.*?)\)\s*(->.*|requires.*|ensures.*)?$", lf.sig, re.S)
        if not m:
            raise Undecided(f"bad lift signature: {lf.sig[:60]}")
        lname = m.group(1)
        params = m.group(3)
        args = []
        is_method = False
        for p in split_top(lex(params), ","):
            if p:
                if compact(p) in ("&self", "self", "&mut self"):
                    is_method = True
                    continue
                a = p[0].text if p[0].text != "mut" else p[1].text
                args.append(a)
        cut = toks[lo:hi + 1]
        if any(t.kind == "ident" and t.text in ("return", "break", "continue") for t in cut) or any(is_p(t, "?") for t in cut):
            raise Undecided(f"lift {lname}: expression contains control flow")
        pending.append((lf.sig, cut if not stub else None, is_method))
        rep.lifts.append({"name": lname, "fn": fn, "anchor": f"{lf.mode} {lf.key}#{lf.k}", "text": render(cut).strip(),
                          "body_emitted": not stub})
        rep.rule("R6 lift expression to external_body leaf")
        call = syn(("self." if is_method else "") + f"{lname}({lf.args or ', '.join(args)})", cut[0].pos, cut[0].ws)
        toks = toks[:lo] + [call] + toks[hi + 1:]
    leafs.extend(reversed(pending))
    return toks


def find_nested_fn(toks: List[Tok], name: str, where: str) -> Tuple[int, int]:
    """token range [lo, hi] of the nested item `fn NAME(..) .. { .. }` inside a function body"""
    for i, t in enumerate(toks):
        if t.kind == "ident" and t.text == "fn" and i + 2 < len(toks) and toks[i + 1].kind == "ident" and toks[i + 1].text == name \
                and is_p(toks[i + 2], "(") and i > 0 and toks[i - 1].kind == "punct" and toks[i - 1].text in ("{", "}", ";"):
            j = i + 2
            while not is_p(toks[j], "{"):
                j = match_close(toks, j) + 1 if toks[j].kind == "punct" and toks[j].text in OPEN else j + 1
            return i, match_close(toks, j)
    raise Undecided(f"lost anchor: nested fn {name} not found in {where}")


def loop_positions(toks: List[Tok]) -> List[Tuple[int, int, int]]:
    """(index of keyword, index of body '{', index of matching '}') for every while/loop/for in order"""
    res = []
    for i, t in enumerate(toks):
        if t.kind == "ident" and t.text in ("while", "loop", "for"):
            if t.text == "for" and i > 0 and (toks[i - 1].kind == "ident" and toks[i - 1].text in ("impl",) or is_p(toks[i - 1], ">")):
                continue
            j = i + 1
            d = 0
            while True:
                tj = toks[j]
                if tj.kind == "punct":
                    if tj.text == "{" and d == 0:
                        break
                    if tj.text in ("(", "["):
                        d += 1
                    elif tj.text in (")", "]"):
                        d -= 1
                j += 1
            res.append((i, j, match_close(toks, j)))
    return res


def rule_R7(toks: List[Tok], k: int, rep: Report, fn: str) -> List[Tok]:
    """for (I, &X) in V.iter().enumerate() { B }  ->  index while loop
       for X in V.iter() / for &X in V.iter()     ->  index while loop (hidden index __i<k>)"""
    loops = [l for l in loop_positions(toks) if toks[l[0]].text == "for"]
    if k > len(loops):
        raise Undecided(f"lost anchor: for loop #{k} in {fn}")
    kw, bo, bc = loops[k - 1]
    head = toks[kw + 1:bo]
    body = toks[bo + 1:bc]
    if any(t.kind == "ident" and t.text in ("continue",) for t in body) or \
            any(t.kind == "life" for t in body):
        raise Undecided(f"R7: loop body of for #{k} in {fn} uses continue/labels")
    txt = compact(head)
    m26 = re.match(r"(\w+) in (\w+)\.split_inclusive\(\|(\w+)\|", txt)
    if m26 and is_p(head[-1], ")"):
        # R26: for X in V.split_inclusive(|N| P): the maximal pieces of V that end with (and include) an element satisfying P, in
        # order; a last piece without such an element if V does not end with one; nothing for an empty V (the definition of
        # <[T]>::split_inclusive).  P is the /repo text with the closure parameter N replaced by a reference to the element.
        x, v, n = m26.group(1), m26.group(2), m26.group(3)
        bars = [i for i, t in enumerate(head) if is_p(t, "|")]
        if len(bars) != 2 or bars[1] != bars[0] + 2:
            raise Undecided(f"R26: closure of split_inclusive in {fn} is not of the form |n| P")
        pred = head[bars[1] + 1:len(head) - 1]
        if any(t.kind == "ident" and t.text == v for t in body):
            pass        # reading V inside the body is harmless (V is borrowed immutably by the iterator; rustc checks that)
        pos = toks[kw].pos
        s0, e0 = f"si_start__{k}", f"si_end__{k}"
        elem = f"(&{v}[{e0}])"
        pred2 = [syn(elem, t.pos, t.ws) if (t.kind == "ident" and t.text == n) else t for t in pred]
        ws = toks[kw].ws
        new = [syn(f"let mut {s0}: usize = 0;", pos, ws), Tok("ident", "while", pos, " "), syn(f"{s0} < {v}.len()", pos, " "),
               Tok("punct", "{", toks[bo].pos, " "), syn(f"let mut {e0}: usize = {s0};", toks[bo].pos, " "),
               Tok("ident", "while", pos, " "), syn(f"{e0} < {v}.len() && !(", pos, " ")] + pred2 + \
              [syn(")", pos, ""), Tok("punct", "{", pos, " "), syn(f"{e0} += 1;", pos, " "), Tok("punct", "}", pos, " "),
               syn(f"if {e0} < {v}.len() {{ {e0} += 1; }} let {x} = &{v}[{s0}..{e0}];", toks[bo].pos, " ")] + body + \
              [syn(f"{s0} = {e0};", toks[bc].pos, " "), toks[bc]]
        rep.rule("R26 for-in-split_inclusive(|n| P) loop -> index loop over the maximal pieces ending with a P element")
        return toks[:kw] + new + toks[bc + 1:]
    m = re.fullmatch(r"\((\w+),&(\w+)\)in ([\w.]+)\.iter\(\)\.enumerate\(\)", txt)
    m_enum = m is not None
    mw = None
    ms = None
    mc = None
    mp = None
    pos = toks[kw].pos
    idx = f"idx__{k}"
    pre = f"let mut {idx}: usize = 0;"
    if m:
        # the body may shadow the index name, so the loop counter is a fresh variable
        i_name, x, v = m.group(1), m.group(2), m.group(3)
        bind = f"let {i_name}: usize = {idx}; let {x} = {v}[{idx}];"
    else:
        m = re.fullmatch(r"&?(\w+) in ([\w.]+)\.iter\(\)", txt)
        mt = re.fullmatch(r"\(([\w,]+)\) ?in ?&(\w+)", txt)
        mw = re.fullmatch(r"(\w+) in (\w+)\.windows\((\w+)\)", txt)
        ms = re.fullmatch(r"(\w+) in (\w+)\.into_iter\(\)\.skip\((\w+)\)", txt)
        mc = None if m else re.fullmatch(r"&(\w+) in ([\w.]+\(\))", txt)      # (`v.iter()` is the plain R7 case above)
        mp = None if (m or mt or mw or ms or mc) else re.fullmatch(r"&(\w+) in (\w+)", txt)
        if mp:
            # R27: for &X in S with S a slice (`&[T]`: rustc checks the index expression in the generated unit): the elements in
            # order, by value -- the same loop as `for &X in S.iter()`
            m = mp
            txt = "&" + txt[1:]
        if mt:
            # for (a, _, c) in &V: a tuple pattern against `&T` binds references to the fields (default binding modes), as does `let (..) = &V[i]`
            x, v = "(" + mt.group(1).replace(",", ", ") + ")", mt.group(2)
            bind = f"let {x} = &{v}[{idx}];"
        elif mc:
            # R25: for &X in RECV.method(): the call returns a slice (rustc checks that in the generated unit); it is evaluated once,
            # as the `for` does, and its elements are visited in order by value
            x, call = mc.group(1), mc.group(2)
            v = f"it_c__{k}"
            bind = f"let {x} = {v}[{idx}];"
            pre = f"let {v} = {call}; let mut {idx}: usize = 0;"
        elif ms:
            # R24: for X in V.into_iter().skip(N): the elements from position N on, by value (Copy: checked by rustc in the generated unit;
            # V is not used after the loop in /repo, since into_iter consumes it)
            x, v = ms.group(1), ms.group(2)
            bind = f"let {x} = {v}[{idx}];"
            pre = f"let mut {idx}: usize = {ms.group(3)};"
            mw = None
        elif mw:
            # R23: for W in V.windows(N): every contiguous sub-slice of length N, in order
            x, v, nwin = mw.group(1), mw.group(2), mw.group(3)
            bind = f"let {x} = &{v}[{idx}..{idx} + {nwin}];"
        elif m:
            amp = txt.startswith("&")
            x, v = m.group(1), m.group(2)
            bind = f"let {x} = {'' if amp else '&'}{v}[{idx}];"
        else:
            raise Undecided(f"R7: unsupported for header `{txt}` in {fn}")
    if any(t.kind == "ident" and t.text == v.split(".")[0] and i + 1 < len(body) and is_p(body[i + 1], ".") and
           body[i + 2].text in ("push", "clear", "remove", "insert", "truncate", "swap_remove") for i, t in enumerate(body)):
        raise Undecided(f"R7: loop body mutates {v}")
    ws = toks[kw].ws
    cond = f"{idx} <= {v}.len() && {mw.group(3)} <= {v}.len() - {idx}" if (not m_enum and mw) else f"{idx} < {v}.len()"
    new = [syn(pre, pos, ws), Tok("ident", "while", pos, " "), syn(cond, pos, " "),
           Tok("punct", "{", toks[bo].pos, " "), syn(bind, toks[bo].pos, " ")] + body + \
          [syn(f"{idx} += 1;", toks[bc].pos, " "), toks[bc]]
    rep.rule("R23 for-in-windows(n) loop -> index while loop" if (not m_enum and mw) else "R7 for-in-iter loop -> index while loop")
    if not m_enum and ms:
        rep.rule("R24 for-in-into_iter().skip(n) loop -> index while loop starting at n")
    if not m_enum and mp:
        rep.rule("R27 for-&x-in-slice loop -> index while loop")
    if not m_enum and mc:
        rep.rule("R25 for-&x-in-call() loop over a returned slice -> index while loop")
    return toks[:kw] + new + toks[bc + 1:]


def rule_R22(toks: List[Tok], k: int, fld: str, rep: Report, fn: str) -> List[Tok]:
    """for &X in V.iter().flatten() { B }   (V: Vec<C>, `&C: IntoIterator` iterating C.FIELD -- pinned by an `expect` directive)
       ->  two nested index loops over V and V[o].FIELD, binding X = V[o].FIELD[i]"""
    loops = [l for l in loop_positions(toks) if toks[l[0]].text == "for"]
    if k > len(loops):
        raise Undecided(f"lost anchor: for loop #{k} in {fn}")
    kw, bo, bc = loops[k - 1]
    body = toks[bo + 1:bc]
    if any(t.kind == "ident" and t.text in ("continue", "break") for t in body) or any(t.kind == "life" for t in body):
        raise Undecided(f"R22: loop body of for #{k} in {fn} uses break/continue/labels")
    m = re.fullmatch(r"&(\w+) in (\w+)\.iter\(\)\.flatten\(\)", compact(toks[kw + 1:bo]).replace("&", "&", 1))
    if not m:
        raise Undecided(f"R22: unsupported for header `{compact(toks[kw + 1:bo])}` in {fn}")
    x, v = m.group(1), m.group(2)
    if any(t.kind == "ident" and t.text == v for t in body):
        raise Undecided(f"R22: loop body mentions {v}")
    pos = toks[kw].pos
    o, i = f"fl_o__{k}", f"fl_i__{k}"
    new = [syn(f"let mut {o}: usize = 0;", pos, toks[kw].ws), Tok("ident", "while", pos, " "), syn(f"{o} < {v}.len()", pos, " "),
           Tok("punct", "{", pos, " "), syn(f"let mut {i}: usize = 0;", pos, " "), Tok("ident", "while", pos, " "),
           syn(f"{i} < {v}[{o}].{fld}.len()", pos, " "), Tok("punct", "{", toks[bo].pos, " "),
           syn(f"let {x} = {v}[{o}].{fld}[{i}];", toks[bo].pos, " ")] + body + \
          [syn(f"{i} += 1;", toks[bc].pos, " "), Tok("punct", "}", toks[bc].pos, " "), syn(f"{o} += 1;", toks[bc].pos, " "), toks[bc]]
    rep.rule("R22 for-in-iter().flatten() over a vector of point lists -> two nested index loops")
    return toks[:kw] + new + toks[bc + 1:]


def rule_R28(toks: List[Tok], err: str, rep: Report, fn: str) -> List[Tok]:
    """anyhow's  ensure!(COND, MESSAGE...)  ->  if !(COND) { return Err(ERR); }   -- the definition of the macro
    (`if !COND { return Err(anyhow!(MESSAGE...)) }`) with the error value made opaque (the message is dropped, and reported)."""
    out = []
    i = 0
    hits = 0
    while i < len(toks):
        t = toks[i]
        if t.kind == "ident" and t.text == "ensure" and i + 2 < len(toks) and is_p(toks[i + 1], "!") and is_p(toks[i + 2], "("):
            close = match_close(toks, i + 2)
            # first comma at bracket depth 0 (an expression: `<` is a comparison here, not a generic bracket)
            cond, d = [], 0
            for tt in toks[i + 3:close]:
                if tt.kind == "punct":
                    if tt.text in OPEN:
                        d += 1
                    elif tt.text in CLOSE:
                        d -= 1
                    elif tt.text == "," and d == 0:
                        break
                cond.append(tt)
            if not cond:
                raise Undecided(f"R28: ensure! without a condition in {fn}")
            cond[0] = Tok(cond[0].kind, cond[0].text, cond[0].pos, "")
            out += [_stop(syn("if !(", t.pos, t.ws))] + cond + [syn(") { return Err(" + err + "); }", toks[close].pos, "")]
            i = close + 1
            if i < len(toks) and is_p(toks[i], ";"):
                i += 1
            hits += 1
            continue
        out.append(t)
        i += 1
    if hits == 0:
        raise Undecided(f"lost anchor: no ensure!( in {fn}")
    rep.rule("R28 anyhow ensure!(cond, msg) -> if !(cond) { return Err(opaque error) }", hits)
    rep.drop("message arguments of ensure! (the error value is opaque)", hits)
    return out


def rule_R29(toks: List[Tok], ks: List[int], rep: Report, fn: str) -> List[Tok]:
    """O.map(|P| E)  with O an Option (rustc checks that in the generated unit: the patterns are Some / None)
       ->  (match O { Some(P) => Some(E), None => None })      -- the definition of Option::map.  Ordinals count `.map(` calls."""
    sites = [i for i, t in enumerate(toks) if t.kind == "ident" and t.text == "map" and i > 0 and is_p(toks[i - 1], ".") and is_p(toks[i + 1], "(")]
    for k in sorted(ks, reverse=True):
        if k > len(sites):
            raise Undecided(f"lost anchor: .map( #{k} in {fn}")
        i = sites[k - 1]
        close = match_close(toks, i + 1)
        lo = chain_start(toks, i - 2)
        parts = _closure_parts(toks, i + 1)
        if parts is None or not re.fullmatch(r"\w+", parts[0]):
            raise Undecided(f"R29: argument of .map( #{k} in {fn} is not a closure |name| expr")
        pat, body = parts
        if any(t.kind == "ident" and t.text in ("return", "break", "continue") for t in body) or any(is_p(t, "?") for t in body):
            raise Undecided(f"R29: closure of .map( #{k} in {fn} contains control flow")
        first = toks[lo]
        recv = [Tok(first.kind, first.text, first.pos, "")] + toks[lo + 1:i - 1]
        body = list(body)
        body[0] = Tok(body[0].kind, body[0].text, body[0].pos, "")
        toks = toks[:lo] + [syn("(match ", first.pos, first.ws)] + recv + [syn(" { Some(" + pat + ") => Some(", toks[i].pos, "")] + body + \
            [syn("), None => None })", toks[close].pos, "")] + toks[close + 1:]
        rep.rule("R29 Option .map(|p| E) -> match { Some(p) => Some(E), None => None }")
    return toks


def rule_R10(toks: List[Tok], which: List[str], rep: Report, fn: str) -> List[Tok]:
    """E?  ->  (match E { Ok(v__) => v__, Err(e__) => return Err(From::from(e__)) })
    Verus gives `?` no error-conversion semantics; the desugared form is the definition of `?` for Result."""
    qs = [i for i, t in enumerate(toks) if is_p(t, "?")]
    sel = list(range(1, len(qs) + 1)) if "all" in which else [int(x) for x in which]
    for k in sorted(sel, reverse=True):
        if k > len(qs):
            raise Undecided(f"lost anchor: `?` #{k} in {fn}")
        q = qs[k - 1]
        lo = chain_start(toks, q - 1)
        first = toks[lo]
        toks = toks[:lo] + [syn("(match ", first.pos, first.ws), Tok(first.kind, first.text, first.pos, "")] + toks[lo + 1:q] + \
            [syn(" { Ok(v__) => v__, Err(e__) => return Err(From::from(e__)) })", toks[q].pos)] + toks[q + 1:]
        rep.rule("R10 `?` desugared to match/return Err(From::from(e))")
    return toks


def rule_R13(toks: List[Tok], ks: List[int], rep: Report, fn: str) -> List[Tok]:
    """V.iter()[.enumerate() | .take(N)].position(|PAT| BODY)   ->   an index loop returning the first index whose element
    satisfies BODY (the definition of Iterator::position on a slice iterator).  Ordinals refer to the /repo text."""
    sites = [i for i, t in enumerate(toks) if t.kind == "ident" and t.text == "position" and i > 0 and is_p(toks[i - 1], ".") and is_p(toks[i + 1], "(")]
    for orig, k in sorted(ks, key=lambda x: -x[1]):
        if k > len(sites):
            raise Undecided(f"lost anchor: .position( #{orig} in {fn}")
        i = sites[k - 1]
        k = orig        # generated names carry the ordinal of the /repo text
        close = match_close(toks, i + 1)
        lo = chain_start(toks, i - 2)
        recv = compact(toks[lo:i - 1])
        m = re.fullmatch(r"([\w.]+)\.iter\(\)(\.enumerate\(\)|\.take\((.+)\))?", recv)
        if not m:
            raise Undecided(f"R13: unsupported receiver `{recv}` of .position( #{k} in {fn}")
        v, mid, take_n = m.group(1), m.group(2) or "", m.group(3)
        # closure: |PAT| BODY
        a = i + 2
        if not is_p(toks[a], "|"):
            raise Undecided(f"R13: argument of .position( #{k} in {fn} is not a closure")
        b = a + 1
        while not is_p(toks[b], "|"):
            b += 1
        pat = compact(toks[a + 1:b])
        body = toks[b + 1:close]
        if any(t.kind == "ident" and t.text in ("return", "break", "continue") for t in body) or any(is_p(t, "?") for t in body):
            raise Undecided(f"R13: closure of .position( #{k} in {fn} contains control flow")
        idx, res = f"scan_i__{k}", f"scan_r__{k}"
        if mid.startswith(".enumerate"):
            mm = re.fullmatch(r"\((\w+),(\w+)\)", pat)
            if not mm:
                raise Undecided(f"R13: unsupported closure pattern `{pat}` in {fn}")
            bind = f"let {mm.group(1)}: usize = {idx}; let {mm.group(2)} = &{v}[{idx}];"
            limit = f"{idx} < {v}.len()"
            pre = ""
        else:
            if re.fullmatch(r"\w+", pat):
                bind = f"let {pat} = &{v}[{idx}];"
            elif re.fullmatch(r"&(\w+|\([\w,]+\))", pat):
                # `|&PAT|` on a slice iterator binds a copy of the element (rustc checks Copy in the generated unit)
                bind = f"let {pat[1:].replace(',', ', ')} = {v}[{idx}];"
            else:
                raise Undecided(f"R13: unsupported closure pattern `{pat}` in {fn}")
            if take_n is not None:
                pre = f"let scan_n__{k}: usize = {take_n}; "
                limit = f"{idx} < scan_n__{k} && {idx} < {v}.len()"
            else:
                pre = ""
                limit = f"{idx} < {v}.len()"
        first = toks[lo]
        head = syn("{ " + pre + f"let mut {idx}: usize = 0; let mut {res}: Option<usize> = None;", first.pos, first.ws)
        kw = Tok("ident", "while", first.pos, " ")
        cond = syn(f"{limit} && {res}.is_none()", first.pos, " ")
        ob = Tok("punct", "{", toks[i].pos, " ")
        b1 = syn(bind, toks[a].pos, " ")
        b1b = _stop(syn("if", toks[a].pos, " "))
        tail = syn("{ " + f"{res} = Some({idx});" + " } else { " + f"{idx} += 1;" + " }", toks[close].pos, " ")
        cb = Tok("punct", "}", toks[close].pos, " ")
        fin = syn(f"{res} " + "}", toks[close].pos, " ")
        body = list(body)
        body[0] = Tok(body[0].kind, body[0].text, body[0].pos, " ")
        toks = toks[:lo] + [head, kw, cond, ob, b1, b1b] + body + [tail, cb, fin] + toks[close + 1:]
        rep.rule("R13 slice .iter()[.enumerate()|.take(n)].position(closure) -> index loop")
    return toks


def rule_R14(toks: List[Tok], ks: List[int], rep: Report, fn: str) -> List[Tok]:
    """V.into_iter().fold(INIT, |mut ACC, ITEM| { STMTS; ACC })  ->  { let mut ACC = INIT; index loop over V binding ITEM = &V[i]; ACC }
    (the definition of Iterator::fold for a Vec consumed in order; ITEM is only read in STMTS, checked: no move of ITEM)"""
    sites = [i for i, t in enumerate(toks) if t.kind == "ident" and t.text == "fold" and i > 0 and is_p(toks[i - 1], ".") and is_p(toks[i + 1], "(")]
    for k in sorted(ks, reverse=True):
        if k > len(sites):
            raise Undecided(f"lost anchor: .fold( #{k} in {fn}")
        i = sites[k - 1]
        close = match_close(toks, i + 1)
        lo = chain_start(toks, i - 2)
        recv = compact(toks[lo:i - 1])
        m = re.fullmatch(r"([\w.]+)\.into_iter\(\)", recv)
        if not m:
            raise Undecided(f"R14: unsupported receiver `{recv}` of .fold( #{k} in {fn}")
        v = m.group(1)
        args = split_top(toks[i + 2:close], ",")
        # closure may contain commas only inside its braces, so rejoin everything after the first top-level comma
        if len(args) < 2:
            raise Undecided(f"R14: .fold( #{k} in {fn} needs (init, closure)")
        init = args[0]
        first_comma = i + 2 + len(init)
        clo = toks[first_comma + 1:close]
        mm = re.match(r"^\|mut (\w+),(\w+)\|\{", compact(clo))
        if not mm:
            raise Undecided(f"R14: unsupported closure shape in .fold( #{k} in {fn}")
        acc, item = mm.group(1), mm.group(2)
        ob = next(j for j, t in enumerate(clo) if is_p(t, "{"))
        cb = match_close(clo, ob)
        inner = clo[ob + 1:cb]
        if not (inner and inner[-1].kind == "ident" and inner[-1].text == acc and is_p(inner[-2], ";")):
            raise Undecided(f"R14: closure of .fold( #{k} in {fn} does not end with `; {acc}`")
        stmts = inner[:-1]
        for j, t in enumerate(stmts):
            if t.kind == "ident" and t.text == item and not (j + 1 < len(stmts) and is_p(stmts[j + 1], ".")) :
                raise Undecided(f"R14: closure of .fold( #{k} in {fn} uses `{item}` other than through a field")
        if any(t.kind == "ident" and t.text in ("return", "break", "continue") for t in stmts):
            raise Undecided(f"R14: control flow in the closure of .fold( #{k} in {fn}")
        idx = f"fold_i__{k}"
        first = toks[lo]
        init = list(init)
        init[0] = Tok(init[0].kind, init[0].text, init[0].pos, " ")
        stmts = list(stmts)
        stmts[0] = Tok(stmts[0].kind, stmts[0].text, stmts[0].pos, " ")
        new = [syn("{ " + f"let mut {acc} =", first.pos, first.ws)] + init + \
              [syn(f"; let mut {idx}: usize = 0;", first.pos, ""), Tok("ident", "while", first.pos, " "),
               syn(f"{idx} < {v}.len()", first.pos, " "), Tok("punct", "{", toks[i].pos, " "),
               syn(f"let {item} = &{v}[{idx}];", toks[i].pos, " ")] + stmts + \
              [syn(f"{idx} += 1;", toks[close].pos, " "), Tok("punct", "}", toks[close].pos, " "), syn(f"{acc} " + "}", toks[close].pos, " ")]
        toks = toks[:lo] + new + toks[close + 1:]
        rep.rule("R14 Vec .into_iter().fold(init, closure) -> index loop")
    return toks


def _closure_parts(toks: List[Tok], open_paren: int):
    """toks[open_paren] is `(` of a call whose single argument is `|PAT| BODY`; -> (pattern text, body tokens)"""
    close = match_close(toks, open_paren)
    a = open_paren + 1
    if not is_p(toks[a], "|"):
        return None
    b = a + 1
    while not is_p(toks[b], "|"):
        b += 1
    return compact(toks[a + 1:b]), toks[b + 1:close]


def rule_loopify(toks: List[Tok], items: List[Tuple[str, int, str]], rep: Report, fn: str) -> List[Tok]:
    """Iterator chains with a fixed meaning on slices / vectors, rewritten into the index loop that defines them:
       R15  S.chunks_exact(N).map(|b| E).collect()            ->  push E for b = &S[i..i+N], i = 0, N, 2N, ... while i + N <= len
       R16  S.iter().map(|n| E).sum::<T>()                     ->  accumulate E for n = &S[i]
       R17  V.into_iter().rev().map(|x| E).collect()           ->  push E for x = V[len-1-i]
       R18  S.iter().any(|&x| E)                               ->  scan until E holds
    The anchor is the K-th occurrence of the last method (`collect`, `sum`, `any`) in the /repo text of the function."""
    for meth, k, elem_ty in sorted(items, key=lambda x: (x[0], -x[1])):
        sites = [i for i, t in enumerate(toks) if t.kind == "ident" and t.text == meth and i > 0 and is_p(toks[i - 1], ".")
                 and (is_p(toks[i + 1], "(") or adj(toks, i + 1, "::"))]
        if k > len(sites):
            raise Undecided(f"lost anchor: .{meth}( #{k} in {fn}")
        i = sites[k - 1]
        lo = chain_start(toks, i - 2)
        j = i + 1
        ty = None
        if adj(toks, j, "::"):
            d = 0
            j += 2
            t0 = j
            while True:
                if is_p(toks[j], "<"):
                    d += 1
                elif is_p(toks[j], ">"):
                    d -= 1
                    if d == 0:
                        break
                j += 1
            ty = compact(toks[t0 + 1:j])
            j += 1
        hi = match_close(toks, j)
        # split the chain into receiver and calls
        calls = []        # (name, open paren index)
        p = lo
        depth = 0
        q = lo
        while q <= hi:
            t = toks[q]
            if t.kind == "punct" and t.text in OPEN:
                q = match_close(toks, q) + 1
                continue
            if is_p(t, ".") and toks[q + 1].kind == "ident" and q + 2 <= hi and (is_p(toks[q + 2], "(") or adj(toks, q + 2, "::")):
                name = toks[q + 1].text
                op = q + 2
                if adj(toks, op, "::"):
                    d = 0
                    op += 2
                    while True:
                        if is_p(toks[op], "<"):
                            d += 1
                        elif is_p(toks[op], ">"):
                            d -= 1
                            if d == 0:
                                break
                        op += 1
                    op += 1
                calls.append((name, op, q))
                q = match_close(toks, op) + 1
                continue
            q += 1
        names = [c[0] for c in calls]
        first = toks[lo]
        tag = f"{meth}{k}"
        idx = f"it_i__{tag}"

        def recv_upto(call_index):
            return toks[lo:calls[call_index][2]]
        if names[-3:] == ["chunks_exact", "map", "collect"]:
            ci = len(calls) - 3
            recv = recv_upto(ci)
            n_toks = toks[calls[ci][1] + 1:match_close(toks, calls[ci][1])]
            cp = _closure_parts(toks, calls[ci + 1][1])
            if cp is None or not re.fullmatch(r"\w+", cp[0]):
                raise Undecided(f"R15: unsupported closure in {fn}")
            x, body = cp
            rt = render(recv).strip()
            nt = render(n_toks).strip()
            body = list(body)
            body[0] = Tok(body[0].kind, body[0].text, body[0].pos, " ")
            new = [syn("{ " + f"let it_s__{tag} = &{rt}; let mut it_o__{tag} = Vec::new(); let mut {idx}: usize = 0;", first.pos, first.ws),
                   Tok("ident", "while", first.pos, " "), syn(f"{idx} + {nt} <= it_s__{tag}.len()", first.pos, " "),
                   Tok("punct", "{", first.pos, " "), syn(f"let {x} = &it_s__{tag}[{idx}..{idx} + {nt}];", first.pos, " "), _stop(syn(f"it_o__{tag}.push(", first.pos, " "))] + body + \
                  [syn(f"); {idx} += {nt};", toks[hi].pos, " "), Tok("punct", "}", toks[hi].pos, " "), syn(f"it_o__{tag} " + "}", toks[hi].pos, " ")]
            rep.rule("R15 slice.chunks_exact(n).map(closure).collect() -> index loop")
        elif names[-3:] == ["iter", "map", "sum"]:
            ci = len(calls) - 3
            recv = recv_upto(ci)
            cp = _closure_parts(toks, calls[ci + 1][1])
            if cp is None or not re.fullmatch(r"\w+", cp[0]) or ty is None:
                raise Undecided(f"R16: unsupported closure / missing turbofish in {fn}")
            x, body = cp
            rt = render(recv).strip()
            body = list(body)
            body[0] = Tok(body[0].kind, body[0].text, body[0].pos, " ")
            new = [syn("{ " + f"let it_s__{tag} = &{rt}; let mut it_a__{tag}: {ty} = 0; let mut {idx}: usize = 0;", first.pos, first.ws),
                   Tok("ident", "while", first.pos, " "), syn(f"{idx} < it_s__{tag}.len()", first.pos, " "),
                   Tok("punct", "{", first.pos, " "), syn(f"let {x} = &it_s__{tag}[{idx}];", first.pos, " "), _stop(syn(f"it_a__{tag} = it_a__{tag} + (", first.pos, " "))] + body + \
                  [syn(f"); {idx} += 1;", toks[hi].pos, " "), Tok("punct", "}", toks[hi].pos, " "), syn(f"it_a__{tag} " + "}", toks[hi].pos, " ")]
            rep.rule("R16 slice.iter().map(closure).sum::<T>() -> index loop")
        elif names[-4:] == ["into_iter", "rev", "map", "collect"]:
            ci = len(calls) - 4
            recv = recv_upto(ci)
            cp = _closure_parts(toks, calls[ci + 2][1])
            if cp is None or not re.fullmatch(r"\w+", cp[0]):
                raise Undecided(f"R17: unsupported closure in {fn}")
            x, body = cp
            rt = render(recv).strip()
            body = list(body)
            body[0] = Tok(body[0].kind, body[0].text, body[0].pos, " ")
            new = [syn("{ " + f"let it_s__{tag} = {rt}; let mut it_o__{tag} = Vec::new(); let mut {idx}: usize = 0;", first.pos, first.ws),
                   Tok("ident", "while", first.pos, " "), syn(f"{idx} < it_s__{tag}.len()", first.pos, " "),
                   Tok("punct", "{", first.pos, " "), syn(f"let {x} = it_s__{tag}[it_s__{tag}.len() - 1 - {idx}];", first.pos, " "), _stop(syn(f"it_o__{tag}.push(", first.pos, " "))] + body + \
                  [syn(f"); {idx} += 1;", toks[hi].pos, " "), Tok("punct", "}", toks[hi].pos, " "), syn(f"it_o__{tag} " + "}", toks[hi].pos, " ")]
            rep.rule("R17 vec.into_iter().rev().map(closure).collect() -> index loop (elements are Copy: checked by rustc in the generated unit)")
        elif names[-3:] == ["into_iter", "map", "collect"]:
            # R31  V.into_iter().map(|PAT| E).collect()  ->  take the elements out of V front to back (Vec::remove(0)), push E for each:
            # the order and the ownership of into_iter (elements need not be Copy)
            ci = len(calls) - 3
            recv = recv_upto(ci)
            cp = _closure_parts(toks, calls[ci + 1][1])
            if cp is None or not re.fullmatch(r"\w+|\([\w,]+\)", cp[0]):
                raise Undecided(f"R31: unsupported closure in {fn}")
            x, body = cp
            if any(t.kind == "ident" and t.text in ("return", "break", "continue") for t in body) or any(is_p(t, "?") for t in body):
                raise Undecided(f"R31: closure of .map( in {fn} contains control flow")
            rt = render(recv).strip()
            body = list(body)
            body[0] = Tok(body[0].kind, body[0].text, body[0].pos, " ")
            ty_ann = f": Vec<{elem_ty}>" if elem_ty else ""
            new = [syn("{ " + f"let mut it_v__{tag} = {rt}; let mut it_o__{tag}{ty_ann} = Vec::new();", first.pos, first.ws),
                   Tok("ident", "while", first.pos, " "), syn(f"it_v__{tag}.len() > 0", first.pos, " "),
                   Tok("punct", "{", first.pos, " "), _stop(syn(f"let {x.replace(',', ', ')} = it_v__{tag}.remove(0);", first.pos, " ")), _stop(syn(f"it_o__{tag}.push(", first.pos, " "))] + body + \
                  [_stop(syn(");", toks[hi].pos, " ")), Tok("punct", "}", toks[hi].pos, " "), syn(f"it_o__{tag} " + "}", toks[hi].pos, " ")]
            rep.rule("R31 vec.into_iter().map(closure).collect() -> loop taking the elements out front to back")
        elif names[-4:] == ["iter", "skip", "map", "collect"]:
            # R30  S.iter().skip(N).map(|&v| E).collect()  ->  push E for v = S[i], i = N, N+1, ... while i < len (nothing when N >= len)
            ci = len(calls) - 4
            recv = recv_upto(ci)
            n_toks = toks[calls[ci + 1][1] + 1:match_close(toks, calls[ci + 1][1])]
            cp = _closure_parts(toks, calls[ci + 2][1])
            if cp is None or not re.fullmatch(r"&?\w+", cp[0]):
                raise Undecided(f"R30: unsupported closure in {fn}")
            x, body = cp
            if any(t.kind == "ident" and t.text in ("return", "break", "continue") for t in body) or any(is_p(t, "?") for t in body):
                raise Undecided(f"R30: closure of .map( in {fn} contains control flow")
            rt = render(recv).strip()
            nt = render(n_toks).strip()
            bind = f"let {x[1:]} = it_s__{tag}[{idx}];" if x.startswith("&") else f"let {x} = &it_s__{tag}[{idx}];"
            body = list(body)
            body[0] = Tok(body[0].kind, body[0].text, body[0].pos, " ")
            ty_ann = f": Vec<{elem_ty}>" if elem_ty else ""
            new = [syn("{ " + f"let it_s__{tag} = &{rt}; let mut it_o__{tag}{ty_ann} = Vec::new(); let mut {idx}: usize = {nt};", first.pos, first.ws),
                   Tok("ident", "while", first.pos, " "), syn(f"{idx} < it_s__{tag}.len()", first.pos, " "),
                   Tok("punct", "{", first.pos, " "), syn(bind, first.pos, " "), _stop(syn(f"it_o__{tag}.push(", first.pos, " "))] + body + \
                  [_stop(syn(");", toks[hi].pos, " ")), syn(f"{idx} += 1;", toks[hi].pos, " "), Tok("punct", "}", toks[hi].pos, " "), syn(f"it_o__{tag} " + "}", toks[hi].pos, " ")]
            rep.rule("R30 slice.iter().skip(n).map(closure).collect() -> index loop starting at n")
        elif names[-2:] == ["iter", "any"]:
            ci = len(calls) - 2
            recv = recv_upto(ci)
            cp = _closure_parts(toks, calls[ci + 1][1])
            if cp is None or not re.fullmatch(r"&?\w+", cp[0]):
                raise Undecided(f"R18: unsupported closure in {fn}")
            x, body = cp
            rt = render(recv).strip()
            bind = f"let {x[1:]} = it_s__{tag}[{idx}];" if x.startswith("&") else f"let {x} = &it_s__{tag}[{idx}];"
            body = list(body)
            body[0] = Tok(body[0].kind, body[0].text, body[0].pos, " ")
            new = [syn("{ " + f"let it_s__{tag} = &{rt}; let mut it_f__{tag}: bool = false; let mut {idx}: usize = 0;", first.pos, first.ws),
                   Tok("ident", "while", first.pos, " "), syn(f"{idx} < it_s__{tag}.len() && !it_f__{tag}", first.pos, " "),
                   Tok("punct", "{", first.pos, " "), syn(f"{bind}", first.pos, " "), _stop(syn("if", first.pos, " "))] + body + \
                  [syn("{ " + f"it_f__{tag} = true;" + " } else { " + f"{idx} += 1;" + " }", toks[hi].pos, " "), Tok("punct", "}", toks[hi].pos, " "),
                   syn(f"it_f__{tag} " + "}", toks[hi].pos, " ")]
            rep.rule("R18 slice.iter().any(closure) -> index loop")
        elif names[-2:] == ["iter", "find"]:
            ci = len(calls) - 2
            recv = recv_upto(ci)
            cp = _closure_parts(toks, calls[ci + 1][1])
            if cp is None or not re.fullmatch(r"\([\w,]+\)", cp[0]):
                raise Undecided(f"R19: unsupported closure in {fn}")
            x, body = cp
            if any(t.kind == "ident" and t.text in ("return", "break", "continue") for t in body) or any(is_p(t, "?") for t in body):
                raise Undecided(f"R19: closure of .find( in {fn} contains control flow")
            rt = render(recv).strip()
            body = list(body)
            body[0] = Tok(body[0].kind, body[0].text, body[0].pos, " ")
            ty_ann = f": Option<{elem_ty}>" if elem_ty else ""
            # the closure sees `&&T`; a tuple pattern binds references to the fields either way (default binding modes)
            new = [syn("{ " + f"let it_s__{tag} = &{rt}; let mut it_f__{tag}{ty_ann} = None; let mut {idx}: usize = 0;", first.pos, first.ws),
                   Tok("ident", "while", first.pos, " "), syn(f"{idx} < it_s__{tag}.len() && it_f__{tag}.is_none()", first.pos, " "),
                   Tok("punct", "{", first.pos, " "), syn(f"let {x.replace(',', ', ')} = &it_s__{tag}[{idx}];", first.pos, " "), _stop(syn("if", first.pos, " "))] + body + \
                  [syn("{ " + f"it_f__{tag} = Some(&it_s__{tag}[{idx}]);" + " } else { " + f"{idx} += 1;" + " }", toks[hi].pos, " "), Tok("punct", "}", toks[hi].pos, " "),
                   syn(f"it_f__{tag} " + "}", toks[hi].pos, " ")]
            rep.rule("R19 slice.iter().find(closure) -> index loop returning the first matching element")
        elif names[-3:] == ["into_iter", "max_by_key", "unwrap_or_default"]:
            ci = len(calls) - 3
            recv = recv_upto(ci)
            cp = _closure_parts(toks, calls[ci + 1][1])
            if cp is None or not re.fullmatch(r"\w+", cp[0]):
                raise Undecided(f"R20: unsupported closure in {fn}")
            x, body = cp
            if any(t.kind == "ident" and t.text in ("return", "break", "continue") for t in body) or any(is_p(t, "?") for t in body):
                raise Undecided(f"R20: closure of .max_by_key( in {fn} contains control flow")
            rt = render(recv).strip()
            bt = render(body).strip()
            # Iterator::max_by_key returns the LAST element with the maximum key (hence `>=`); None on an empty iterator, which
            # unwrap_or_default turns into the default value -- emitted as Vec::new(), so rustc rejects the unit for any other type
            new = [syn("({ " + f"let mut it_s__{tag} = {rt}; let mut it_b__{tag}: usize = 0; let mut {idx}: usize = 0;", first.pos, first.ws),
                   Tok("ident", "while", first.pos, " "), syn(f"{idx} < it_s__{tag}.len()", first.pos, " "),
                   Tok("punct", "{", first.pos, " "),
                   syn(f"let it_k__{tag} = {{ let {x} = &it_s__{tag}[{idx}]; {bt} }}; let it_kb__{tag} = {{ let {x} = &it_s__{tag}[it_b__{tag}]; {bt} }};", first.pos, " "),
                   _stop(syn(f"if it_k__{tag} >= it_kb__{tag} {{ it_b__{tag} = {idx}; }}", first.pos, " ")),
                   syn(f"{idx} += 1;", toks[hi].pos, " "), Tok("punct", "}", toks[hi].pos, " "),
                   syn(f"if it_s__{tag}.len() == 0 {{ Vec::new() }} else {{ it_s__{tag}.swap_remove(it_b__{tag}) }} " + "})", toks[hi].pos, " ")]
            rep.rule("R20 vec.into_iter().max_by_key(closure).unwrap_or_default() -> index loop keeping the last maximum")
        else:
            raise Undecided(f"loopify: unsupported chain `{'.'.join(names)}` at .{meth}( #{k} in {fn}")
        toks = toks[:lo] + new + toks[hi + 1:]
    return toks


def inject_returns(toks: List[Tok], fs: FnSpec, fnq: str) -> List[Tok]:
    """anchors on the K-th `return` keyword of the function (ordinal in the /repo text; lifts never contain one)"""
    if not fs.returns:
        return toks
    rets = [i for i, t in enumerate(toks) if t.kind == "ident" and t.text == "return"]
    ins_before: Dict[int, List[Tok]] = {}
    ins_after: Dict[int, List[Tok]] = {}
    for kind, k, text in fs.returns:
        if k > len(rets):
            raise Undecided(f"lost anchor: return #{k} in {fnq}")
        i = rets[k - 1]
        if kind == "before_return":
            ins_before.setdefault(i, []).append(syn(text, toks[i].pos, toks[i].ws, tag=f"{fnq}.before_return{k}"))
        else:
            # innermost enclosing `{`
            d = 0
            j = i
            while j >= 0:
                t = toks[j]
                if t.kind == "punct":
                    if t.text in CLOSE:
                        d += 1
                    elif t.text in OPEN:
                        if d == 0 and t.text == "{":
                            break
                        d -= 1
                j -= 1
            if j < 0:
                raise Undecided(f"return #{k} in {fnq} has no enclosing block")
            c = match_close(toks, j)
            ins_after.setdefault(c, []).append(syn(text, toks[c].pos, "\n", tag=f"{fnq}.after_return_block{k}"))
    out = []
    for i, t in enumerate(toks):
        if i in ins_before:
            out += ins_before[i]
            out.append(Tok(t.kind, t.text, t.pos, "\n"))
        else:
            out.append(t)
        out += ins_after.get(i, [])
    return out


def inject_loops(toks: List[Tok], fs: FnSpec, fnq: str) -> List[Tok]:
    if not fs.loops:
        return toks
    loops = loop_positions(toks)
    ins_before: Dict[int, List[Tok]] = {}
    ins_after: Dict[int, List[Tok]] = {}
    for k, ent in fs.loops.items():
        if k > len(loops):
            raise Undecided(f"lost anchor: loop #{k} in {fnq}")
        kw, bo, bc = loops[k - 1]
        pos = toks[kw].pos
        for g in ent.get("ghost", []):
            ins_before.setdefault(kw, []).append(syn(g, pos, "\n", tag=f"{fnq}.loop{k}.ghost"))
        if ent.get("invariant"):
            ins_before.setdefault(bo, []).append(syn(" invariant", pos, "\n", tag=f"{fnq}.loop{k}.invariant"))
            for x in ent["invariant"]:
                # `[label] EXPR`: an invariant that states the property itself (the inductive form of a contract clause) is reported
                # like a labelled clause; plain invariants are proof scaffolding
                m = re.match(r"^\[([A-Za-z0-9_.\-]+)\]\s*(.*)$", x, re.S)
                if m:
                    ins_before[bo].append(syn(f"   {m.group(2)}, // @{m.group(1)}", pos, "\n", tag="LABEL:" + m.group(1)))
                else:
                    ins_before[bo].append(syn(f"   {x},", pos, "\n", tag=f"{fnq}.loop{k}.invariant"))
        if ent.get("decreases"):
            ins_before.setdefault(bo, []).append(syn(" decreases " + ", ".join(ent["decreases"]), pos, "\n", tag=f"{fnq}.loop{k}.invariant"))
        if ent.get("invariant") or ent.get("decreases"):
            ins_before[bo].append(syn("", pos, "\n", tag=f"{fnq}.loop{k}.invariant"))
        bs = bo
        while bs + 1 < len(toks) and toks[bs + 1].kind == "syn" and getattr(toks[bs + 1], "tag", None) is None \
                and not getattr(toks[bs + 1], "stop", False):
            bs += 1      # stay behind the bindings that the loop-generating rules produced
        for g in ent.get("body_start", []):
            ins_after.setdefault(bs, []).append(syn(g, toks[bo].pos, "\n", tag=f"{fnq}.loop{k}.body_start"))
        be = bc
        while be - 1 > bo and toks[be - 1].kind == "syn" and getattr(toks[be - 1], "tag", None) is None \
                and not getattr(toks[be - 1], "stop", False):
            be -= 1      # stay in front of the counter increment that rule R7 generated
        for g in ent.get("body_end", []):
            ins_before.setdefault(be, []).append(syn(g, toks[bc].pos, "\n", tag=f"{fnq}.loop{k}.body_end"))
        for g in ent.get("after", []):
            ins_after.setdefault(bc, []).append(syn(g, toks[bc].pos, "\n", tag=f"{fnq}.loop{k}.after"))
    out = []
    for i, t in enumerate(toks):
        out += ins_before.get(i, [])
        out.append(t)
        out += ins_after.get(i, [])
    return out


# ----------------------------------------------------------------------------

class UnitBuilder:
    def __init__(self, repo: str, libdir: str, spec: UnitSpec):
        self.repo = repo
        self.libdir = libdir
        self.spec = spec
        self.rep = Report()
        self.out = Out()
        self.sources: Dict[str, Source] = {}
        self.labels: Dict[str, dict] = {}      # label -> {fn, kind}
        self.fn_ranges: List[dict] = []
        self.emitted_consts: set = set()

    def source(self, rel: str) -> Source:
        if rel not in self.sources:
            s = Source(self.repo, rel)
            self.sources[rel] = s
            self.rep.sources[rel] = s.sha
        return self.sources[rel]

    def cut(self, s: Source, it: Item, what: str):
        self.rep.cuts.append({"item": what, "file": s.rel, "bytes": [it.start, it.end],
                              "lines": [s.line(it.start), s.line(it.end)]})

    # -- types -----------------------------------------------------------
    def emit_type(self, rel: str, kind: str, name: str, minus=(), withs=()):
        s = self.source(rel)
        it = s.find_type(kind, name)
        self.cut(s, it, f"{kind} {name}")
        structural_ok = not any(t.kind == "ident" and t.text in ("str", "String", "Vec", "f32", "f64", "Box", "HashMap") for t in it.toks)
        attrs, _ = filter_attrs(it.attrs, self.rep, structural_ok, minus)
        toks = strip_vis(it.toks)
        for old, new in withs:
            toks = apply_subst(toks, old, new, self.rep, f"{kind} {name}")
        froms: List[Tuple[str, Optional[str], str]] = []
        if it.body_open is not None:
            bo = next(i for i, t in enumerate(toks) if is_p(t, "{"))
            body = clean_type_body(toks[bo:], self.rep, kind == "struct", froms, name if kind == "enum" else None)
            toks = toks[:bo] + body
        else:
            # tuple struct
            bo = next(i for i, t in enumerate(toks) if is_p(t, "("))
            body = clean_type_body(toks[bo:], self.rep, True, froms, None)
            toks = toks[:bo] + body
        self.out.text(attrs, kind="gen")
        self.out.text("pub ", kind="gen")
        toks[0] = Tok(toks[0].kind, toks[0].text, toks[0].pos, "")
        self.out.toks(toks, s, f"{kind} {name}")
        self.out.text("\n")
        for var, fld, ty in froms:
            if kind != "enum":
                raise Undecided("#[from] outside enum")
            cons = f"{name}::{var}(e)" if fld is None else f"{name}::{var} {{ {fld}: e }}"
            self.out.text(
                f"impl From<{ty}> for {name} {{ fn from(e: {ty}) -> (r: {name}) ensures r == {cons} {{ {cons} }} }}\n"
                f"impl vstd::std_specs::convert::FromSpecImpl<{ty}> for {name} {{\n"
                f"    open spec fn obeys_from_spec() -> bool {{ true }}\n"
                f"    open spec fn from_spec(e: {ty}) -> Self {{ {cons} }}\n}}\n", kind="gen")
            self.rep.rule("G1 From impl generated for thiserror #[from]")

    def auto_consts(self, s: "Source", toks: List[Tok]):
        """G4: a constant of the same source file that an extracted body mentions is pulled in automatically (transitively);
        edits that introduce a named constant must not make the unit undecided"""
        names = {it.name for it in s.items if it.kind == "const"}
        declared = {p[1].split()[0] for k, p in self.spec.order if k == "const"}
        todo = [t.text for t in toks if t.kind == "ident" and t.text in names]
        for n in todo:
            if n in self.emitted_consts or n in declared:
                continue
            it = s.find_const(n)
            if any(t.kind == "ident" and t.text in ("f32", "f64", "str") for t in it.toks):
                continue       # float / string constants stay out (the unit declares those it can use)
            self.emitted_consts.add(n)
            self.auto_consts(s, it.toks[1:])
            self.emit_const(s.rel, n)
            self.rep.rule(f"G4 constant {n} pulled in because an extracted body mentions it")

    def emit_const(self, rel: str, spec: str):
        parts = spec.split()
        name = parts[0]
        self.emitted_consts.add(name)
        s = self.source(rel)
        it = s.find_const(name)
        self.cut(s, it, f"const {name}")
        toks = strip_vis(it.toks)
        # R4: &str -> &'static str inside const types
        out = []
        eq = next(i for i, t in enumerate(toks) if is_p(t, "="))
        for i, t in enumerate(toks):
            out.append(t)
            if i < eq and is_p(t, "&") and toks[i + 1].kind == "ident" and toks[i + 1].text == "str":
                out.append(syn("'static ", t.pos, ""))
                self.rep.rule("R4 &str -> &'static str in const type")
        if "external" in parts[1:]:
            self.out.text("#[verifier::external]\n", kind="gen")
        self.out.text("pub ", kind="gen")
        out[0] = Tok(out[0].kind, out[0].text, out[0].pos, "")
        self.out.toks(out, s, f"const {name}")
        self.out.text("\n")

    def check_expect(self, rel: str, header: Optional[str], name: str, want: str):
        """a function of /repo that a rewrite rule relies on must still have the pinned body"""
        s = self.source(rel)
        _, it = s.find_fn(header, name)
        got = compact(it.toks[it.body_open:])
        if got != compact(lex(want)):
            raise Undecided(f"pinned text changed: {(header + ' :: ') if header else ''}{name} in {rel} reads `{got}`, expected `{compact(lex(want))}`")
        self.rep.sources[rel] = s.sha
        self.rep.rule("pinned body checked (expect)")

    # -- functions ---------------------------------------------------------
    def emit_fn(self, fs: FnSpec):
        s = self.source(fs.source)
        if fs.nested_in:
            # R21: a nested fn item cannot capture anything from the enclosing function, so at module level it means the same
            _, parent = s.find_fn(None, fs.nested_in)
            lo, hi = find_nested_fn(parent.toks, fs.name, f"fn {fs.nested_in} of {fs.source}")
            sub = parent.toks[lo:hi + 1]
            bo_n = next(i for i, t in enumerate(sub) if is_p(t, "{") and match_close(sub, i) == len(sub) - 1)
            imp, it = None, Item("fn", fs.name, [], sub, sub[0].pos, sub[-1].end, body_open=bo_n)
            self.rep.rule("R21 nested fn item emitted at module level")
        else:
            imp, it = s.find_fn(fs.header, fs.name)
        fnq = fs.qual
        self.cut(s, it, fnq)
        for a in it.attrs:
            nm = a[2].text
            if nm not in ("inline", "must_use", "allow", "doc"):
                raise Undecided(f"unsupported attribute #[{nm}] on {fnq}")
            self.rep.drop(f"#[{nm}]")
        toks = strip_vis(it.toks)
        if self.spec.mode == "verus" and fs.kind == "fn":
            self.auto_consts(s, toks)
        bo = next(i for i, t in enumerate(toks) if is_p(t, "{") and i >= (it.body_open - (len(it.toks) - len(toks))))
        sig, body = toks[:bo], toks[bo:]
        if any(t.kind == "ident" and t.text == "where" for t in sig):
            raise Undecided(f"where clause on {fnq}")
        # split signature at `->` (depth 0)
        arrow = None
        d = 0
        for i, t in enumerate(sig):
            if t.kind == "punct":
                if t.text in OPEN:
                    d += 1
                elif t.text in CLOSE:
                    d -= 1
                elif d == 0 and adj(sig, i, "->"):
                    arrow = i
                    break
        is_trait = imp is not None and " for " in imp.name
        trait_mode = is_trait and not fs.inherent
        err_toks = None
        if is_trait:
            for ch in imp.children:
                if ch.kind == "type" and ch.name == "Error":
                    eq = next(i for i, t in enumerate(ch.toks) if is_p(t, "="))
                    err_toks = ch.toks[eq + 1:-1]
        # body transformations
        leafs: List[tuple] = []
        for nm in fs.hoist:
            lo, hi = find_nested_fn(body, nm, fnq)
            nxt = body[hi + 1]
            body = body[:lo] + [Tok(nxt.kind, nxt.text, nxt.pos, body[lo].ws)] + body[hi + 2:]
            self.rep.rule("R21 nested fn item cut out of the enclosing body (emitted at module level)")
        if fs.kind == "fn":
            n_ret = sum(1 for t in body if t.kind == "ident" and t.text == "return")
            if fs.desugar_try:
                body = rule_R10(body, fs.desugar_try, self.rep, fnq)
            # lifts and scans are both addressed by ordinals in the /repo text: resolve the lifts first (back to front they do not
            # disturb earlier sites), then rewrite the remaining `.position(` calls, whose ordinals are mapped accordingly
            if fs.scans:
                sites = [i for i, t in enumerate(body) if t.kind == "ident" and t.text == "position" and i > 0 and is_p(body[i - 1], ".") and is_p(body[i + 1], "(")]
                lifted = sorted(lf.k for lf in fs.lifts if lf.mode == "chain" and lf.key == "position")
                remap = {}
                for k in fs.scans:
                    if k in lifted:
                        raise Undecided(f"{fnq}: .position( #{k} is both lifted and scanned")
                    remap[k] = k - len([x for x in lifted if x < k])
            body = apply_lifts(body, fs.lifts, self.rep, fnq, leafs)
            if fs.scans:
                body = rule_R13(body, [(k, remap[k]) for k in fs.scans], self.rep, fnq)
            if fs.folds:
                body = rule_R14(body, fs.folds, self.rep, fnq)
            if fs.loopify:
                body = rule_loopify(body, fs.loopify, self.rep, fnq)
            for k, what in sorted([(k, None) for k in fs.foreach] + [(k, f) for k, f in fs.flatten], key=lambda x: -x[0]):
                body = rule_R7(body, k, self.rep, fnq) if what is None else rule_R22(body, k, what, self.rep, fnq)
            body = rule_R1(body, self.rep)
            body = rule_R2(body, self.rep)
            body = rule_R3(body, self.rep)
            for old, new in fs.substs:
                body = apply_subst(body, old, new, self.rep, fnq)
            for name, k, text in fs.after_let:
                _, _, semi = find_let(body, name, k)
                body = body[:semi + 1] + [syn(text, body[semi].pos, "\n", tag=f"{fnq}.after_let.{name}")] + body[semi + 1:]
            for name, k, text in fs.before_let:
                li, _, _ = find_let(body, name, k)
                body = body[:li] + [syn(text, body[li].pos, body[li].ws, tag=f"{fnq}.before_let.{name}")] + \
                    [Tok(body[li].kind, body[li].text, body[li].pos, "\n")] + body[li + 1:]
            body = inject_returns(body, fs, fnq)
            body = inject_loops(body, fs, fnq)
            if fs.tail:
                d = 0
                boundary = 1
                for i, t in enumerate(body[:-1]):
                    if t.kind == "punct":
                        if t.text in OPEN:
                            d += 1
                        elif t.text in CLOSE:
                            d -= 1
                            if d == 1 and t.text == "}":
                                boundary = i + 1
                        elif t.text == ";" and d == 1:
                            boundary = i + 1
                if boundary >= len(body) - 1:
                    raise Undecided(f"lost anchor: {fnq} has no tail expression")
                first = body[boundary]
                body = body[:boundary] + [syn(x, first.pos, "\n", tag=f"{fnq}.tail") for x in fs.tail] + \
                    [Tok(first.kind, first.text, first.pos, "\n")] + body[boundary + 1:]
            if fs.entry:
                body = [body[0]] + [syn(e, body[0].pos, "\n", tag=f"{fnq}.entry") for e in fs.entry] + body[1:]
        if is_trait and not trait_mode:
            if err_toks is None:
                raise Undecided(f"no `type Error` in impl for {fnq}")
            sig = subst_self_error(sig, err_toks, self.rep)
            body = subst_self_error(body, err_toks, self.rep)
            # recompute arrow
            arrow = None
            d = 0
            for i, t in enumerate(sig):
                if t.kind == "punct":
                    if t.text in OPEN:
                        d += 1
                    elif t.text in CLOSE:
                        d -= 1
                    elif d == 0 and adj(sig, i, "->"):
                        arrow = i
                        break
        # impl header
        if imp is not None:
            if trait_mode:
                hdr = render(imp.toks[:imp.body_open]).strip()
                self.out.text(hdr + " {\n", kind="gen")
                for ch in imp.children:
                    if ch.kind == "type":
                        self.out.text("    " + render(ch.toks).strip() + "\n", kind="gen")
                    elif ch.kind == "fn" and ch.name != fs.name:
                        raise Undecided(f"trait impl `{imp.name}` has more than one fn")
            else:
                ty = imp.name.split(" for ")[-1] if is_trait else imp.name[len("impl "):]
                self.out.text(f"impl {ty} {{\n", kind="gen")
        lo_line = self.out.line
        if fs.kind == "leaf":
            self.out.text("#[verifier::external_body]\n", kind="gen")
            self.rep.rule("R6 whole function kept as external_body leaf")
        for a in fs.attrs:
            self.out.text(a + "\n", kind="gen")
        self.out.text("pub " if not trait_mode else "", kind="gen")
        # signature
        if fs.rename:
            sig = [Tok(t.kind, fs.rename, t.pos, t.ws) if (t.kind == "ident" and t.text == fs.name and i > 0 and sig[i - 1].text == "fn") else t
                   for i, t in enumerate(sig)]
            self.rep.rule(f"R9 fn {fs.name} emitted as {fs.rename}")
        sig[0] = Tok(sig[0].kind, sig[0].text, sig[0].pos, "")
        if arrow is not None:
            self.out.toks(sig[:arrow + 2], s, fnq)
            rt = sig[arrow + 2:]
            self.out.text(f" ({fs.ret}: ", kind="gen")
            rt[0] = Tok(rt[0].kind, rt[0].text, rt[0].pos, "")
            self.out.toks(rt, s, fnq)
            self.out.text(")", kind="gen")
        else:
            self.out.toks(sig, s, fnq)
        self.out.text("\n")
        labels = []
        if fs.requires:
            if trait_mode:
                raise Undecided(f"{fnq}: requires on a trait impl method (use `inherent`)")
            self.out.text("    requires\n", kind="gen")
            for c in fs.requires:
                self.out.text(f"        {c.text}, // @{c.label}\n", kind="label", label=c.label, fn=fnq, clause="requires")
                labels.append(c.label)
        if fs.ensures:
            self.out.text("    ensures\n", kind="gen")
            for c in fs.ensures:
                self.out.text(f"        {c.text}, // @{c.label}\n", kind="label", label=c.label, fn=fnq, clause="ensures")
                labels.append(c.label)
        self.out.text("    /*CANARY:" + fnq + "*/\n", kind="gen")
        if fs.kind == "leaf" and fs.stub:
            self.out.text("{ unimplemented!() /* body not emitted: " + fs.stub + " */ }", kind="gen")
            self.rep.rule(f"R6s leaf {fnq}: body not emitted ({fs.stub})")
        else:
            body[0] = Tok(body[0].kind, body[0].text, body[0].pos, "")
            self.out.toks(body, s, fnq)
        self.out.text("\n")
        hi_line = self.out.line
        if imp is not None:
            self.out.text("}\n", kind="gen")
        gen_name = fs.rename or fs.name
        self.fn_ranges.append({"qual": fnq, "name": gen_name, "lo": lo_line, "hi": hi_line, "labels": labels,
                               "kind": fs.kind, "no_canary": fs.no_canary or fs.kind == "leaf",
                               "src": fs.source, "src_lines": [s.line(it.start), s.line(it.end)]})
        if trait_mode:
            m = re.match(r"impl (\w+)<(.*)> for (.*)$", imp.name)
            if m and m.group(1) in ("TryFrom", "From"):
                tr, arg, ty = m.groups()
                if tr == "TryFrom":
                    self.out.text(
                        f"impl vstd::std_specs::convert::TryFromSpecImpl<{arg}> for {ty} {{\n"
                        f"    open spec fn obeys_try_from_spec() -> bool {{ false }}\n"
                        f"    open spec fn try_from_spec(v: {arg}) -> Result<Self, Self::Error> {{ arbitrary() }}\n}}\n", kind="gen")
                else:
                    self.out.text(
                        f"impl vstd::std_specs::convert::FromSpecImpl<{arg}> for {ty} {{\n"
                        f"    open spec fn obeys_from_spec() -> bool {{ false }}\n"
                        f"    open spec fn from_spec(v: {arg}) -> Self {{ arbitrary() }}\n}}\n", kind="gen")
                self.rep.rule("G2 vstd spec-marker impl generated for trait impl")
        for sigtxt, cut, is_method in leafs:
            lo = self.out.line
            if is_method:
                ty = imp.name.split(" for ")[-1] if is_trait else imp.name[len("impl "):]
                self.out.text(f"impl {ty} {{\n", kind="gen")
            self.out.text("#[verifier::external_body]\npub " + sigtxt.strip() + "\n{ ", kind="gen")
            if cut is None:
                self.out.text("unimplemented!() /* lifted expression not emitted (type adapted in the signature) */", kind="gen")
            else:
                cut = list(cut)
                cut[0] = Tok(cut[0].kind, cut[0].text, cut[0].pos, "")
                self.out.toks(cut, s, fnq + " (lift)")
            self.out.text(" }\n" + ("}\n" if is_method else ""), kind="gen")

    # -- fragments ---------------------------------------------------------
    def cut_fragment(self, body: List[Tok], anchor: str, fnq: str) -> List[Tok]:
        m = re.match(r"^stmts let (\w+)(?:#(\d+))? count (\d+)$", anchor)
        if m:
            li, _, semi = find_let(body, m.group(1), int(m.group(2) or 1))
            end = semi
            for _ in range(int(m.group(3)) - 1):
                d = 0
                j = end + 1
                while True:
                    t = body[j]
                    if t.kind == "punct":
                        if t.text in OPEN:
                            d += 1
                        elif t.text in CLOSE:
                            if d == 0:
                                raise Undecided(f"lost anchor: fewer statements than requested after let {m.group(1)} in {fnq}")
                            d -= 1
                        elif t.text == ";" and d == 0:
                            break
                    j += 1
                end = j
            return body[li:end + 1]
        m = re.match(r"^stmts let (\w+)(?:#(\d+))? to_tail$", anchor)
        if m:
            # from `let NAME` through the last statement of the enclosing block (everything in front of the block's tail expression):
            # statements added or split in between do not move the end of the fragment
            li, _, semi = find_let(body, m.group(1), int(m.group(2) or 1))
            d = 0
            j = semi + 1
            last = semi
            while j < len(body):
                t = body[j]
                if t.kind == "punct":
                    if t.text in OPEN:
                        d += 1
                    elif t.text in CLOSE:
                        if d == 0:
                            break
                        d -= 1
                        if d == 0 and t.text == "}" and j + 1 < len(body) and not is_p(body[j + 1], ";") and not is_p(body[j + 1], ".") \
                                and not is_p(body[j + 1], "?") and not (body[j + 1].kind == "ident" and body[j + 1].text == "else") \
                                and not (body[j + 1].kind == "punct" and body[j + 1].text in CLOSE):
                            last = j          # a block statement (`if .. { }`, `for .. { }`) ends without a semicolon
                    elif t.text == ";" and d == 0:
                        last = j
                j += 1
            return body[li:last + 1]
        m = re.match(r"^arm_block (\d+|~\S+)$", anchor)
        if m:
            # the block of a match arm of the function whose body is a block (`=> {`), braces included: the K-th such arm, or
            # (`~TEXT`) the first one whose pattern -- the tokens in front of `=>` -- contains TEXT
            sites = [i for i, t in enumerate(body) if is_p(t, "=") and adj(body, i, "=>") and i + 2 < len(body) and is_p(body[i + 2], "{")]
            if m.group(1).startswith("~"):
                want = m.group(1)[1:]
                hit = [i for i in sites if want in compact(body[max(0, i - 24):i]).split("{")[-1].split("}")[-1]]
                if not hit:
                    raise Undecided(f"lost anchor: no match arm with pattern containing `{want}` in {fnq}")
                j = hit[0] + 2
            else:
                k = int(m.group(1))
                if k > len(sites):
                    raise Undecided(f"lost anchor: match arm #{k} with a block body in {fnq}")
                j = sites[k - 1] + 2
            return body[j:match_close(body, j) + 1]
        m = re.match(r"^for_loop (\d+|~\S+)$", anchor)
        if m:
            # a whole `for` statement: the K-th of the function, or (`~TEXT`) the first whose header contains TEXT
            loops = [l for l in loop_positions(body) if body[l[0]].text == "for"]
            if m.group(1).startswith("~"):
                want = m.group(1)[1:]
                hit = [l for l in loops if want in compact(body[l[0] + 1:l[1]])]
                if not hit:
                    raise Undecided(f"lost anchor: no for loop with header containing `{want}` in {fnq}")
                return body[hit[0][0]:hit[0][2] + 1]
            k = int(m.group(1))
            if k > len(loops):
                raise Undecided(f"lost anchor: for loop #{k} in {fnq}")
            return body[loops[k - 1][0]:loops[k - 1][2] + 1]
        m = re.match(r"^iflet_block (\d+|~\S+)$", anchor)
        if m:
            # the block of an `if let PAT = EXPR { .. }` of the function, braces included: the K-th, or (`~TEXT`) the first whose
            # pattern contains TEXT
            sites = [i for i, t in enumerate(body) if t.kind == "ident" and t.text == "if" and i + 1 < len(body)
                     and body[i + 1].kind == "ident" and body[i + 1].text == "let"]
            if m.group(1).startswith("~"):
                want = m.group(1)[1:]
                hit = []
                for i in sites:
                    e = i + 2
                    while e < len(body) and not is_p(body[e], "="):
                        e += 1
                    if want in compact(body[i + 2:e]):
                        hit.append(i)
                if not hit:
                    raise Undecided(f"lost anchor: no `if let` with pattern containing `{want}` in {fnq}")
                j = hit[0] + 2
            else:
                k = int(m.group(1))
                if k > len(sites):
                    raise Undecided(f"lost anchor: `if let` #{k} in {fnq}")
                j = sites[k - 1] + 2
            d = 0
            while not (is_p(body[j], "{") and d == 0):
                if body[j].kind == "punct" and body[j].text in ("(", "["):
                    d += 1
                elif body[j].kind == "punct" and body[j].text in (")", "]"):
                    d -= 1
                j += 1
            return body[j:match_close(body, j) + 1]
        m = re.match(r"^arm_tail (\d+|~\S+) after_let (\w+)(?:#(\d+))?$", anchor)
        if m:
            # the statements of the K-th block-bodied match arm that follow its `let NAME` statement (braces excluded)
            blk = self.cut_fragment(body, f"arm_block {m.group(1)}", fnq)
            _, _, semi = find_let(blk, m.group(2), int(m.group(3) or 1))
            if semi + 1 >= len(blk) - 1:
                raise Undecided(f"lost anchor: nothing follows let {m.group(2)} in match arm #{m.group(1)} of {fnq}")
            return blk[semi + 1:len(blk) - 1]
        m = re.match(r"^let_init (\w+)(?:#(\d+))?$", anchor)
        if m:
            _, lo, semi = find_let(body, m.group(1), int(m.group(2) or 1))
            return body[lo:semi]
        m = re.match(r"^closure_body chain (\w+) after (\w+)(?:#(\d+)| (\d+))?$", anchor)
        if m:
            # the first `.METH(` call after the K-th `.AFTER(` call, whose argument is a closure
            meth, aft, k = m.group(1), m.group(2), int(m.group(3) or m.group(4) or 1)
            cnt = 0
            for i, t in enumerate(body):
                if t.kind == "ident" and t.text == aft and i > 0 and is_p(body[i - 1], ".") and is_p(body[i + 1], "("):
                    cnt += 1
                    if cnt == k:
                        j = match_close(body, i + 1) + 1
                        if not (is_p(body[j], ".") and body[j + 1].text == meth and is_p(body[j + 2], "(")):
                            raise Undecided(f"lost anchor: .{aft}( #{k} in {fnq} is not followed by .{meth}(")
                        return self._closure_body(body, j + 1, fnq)
            raise Undecided(f"lost anchor: .{aft}( #{k} in {fnq}")
        m = re.match(r"^match_of path ([\w:]+)(?: (\d+))?$", anchor)
        if m:
            # `match A::b(ARGS) { .. }`: the K-th call of the path A::b that is the scrutinee of a match, the whole match expression
            want = [t.text for t in lex(m.group(1))]
            k = int(m.group(2) or 1)
            cnt = 0
            for i in range(len(body) - len(want) - 1):
                if [t.text for t in body[i:i + len(want)]] == want and is_p(body[i + len(want)], "(") \
                        and i > 0 and body[i - 1].kind == "ident" and body[i - 1].text == "match":
                    cnt += 1
                    if cnt == k:
                        close = match_close(body, i + len(want))
                        if not is_p(body[close + 1], "{"):
                            raise Undecided(f"lost anchor: match body after {m.group(1)}( in {fnq}")
                        return body[i - 1:match_close(body, close + 1) + 1]
            raise Undecided(f"lost anchor: match {m.group(1)}( #{k} in {fnq}")
        m = re.match(r"^(match_of|closure_body|expr) chain (\w+)(?:#(\d+)| (\d+))?$", anchor)
        if m:
            kind, meth, k = m.group(1), m.group(2), int(m.group(3) or m.group(4) or 1)
            if kind == "closure_body":
                cnt = 0
                for i, t in enumerate(body):
                    if t.kind == "ident" and t.text == meth and is_p(body[i + 1], "("):
                        cnt += 1
                        if cnt == k:
                            return self._closure_body(body, i, fnq)
                raise Undecided(f"lost anchor: {meth}( #{k} in {fnq}")
            lo, hi = locate_lift(body, Lift("chain", meth, k, ""), fnq)
            if kind == "expr":
                return body[lo:hi + 1]
            if kind == "match_of":
                if lo == 0 or body[lo - 1].text != "match":
                    raise Undecided(f"lost anchor: .{meth}( #{k} in {fnq} is not the scrutinee of a match")
                j = hi + 1
                if not is_p(body[j], "{"):
                    raise Undecided(f"lost anchor: match body after .{meth}( in {fnq}")
                return body[lo - 1:match_close(body, j) + 1]
            # closure_body: the (last) closure argument `|params| body` of the K-th call `METH(` / `.METH(`
            cnt = 0
            for i, t in enumerate(body):
                if t.kind == "ident" and t.text == meth and is_p(body[i + 1], "("):
                    cnt += 1
                    if cnt == k:
                        return self._closure_body(body, i, fnq)
            raise Undecided(f"lost anchor: {meth}( #{k} in {fnq}")
        raise Undecided(f"unknown fragment anchor `{anchor}`")

    def _closure_body(self, body: List[Tok], i: int, fnq: str) -> List[Tok]:
        """body[i] is the method name, body[i+1] the `(`; return the body of the closure that is its last argument"""
        close = match_close(body, i + 1)
        a = None
        d = 0
        for j in range(i + 2, close):
            t = body[j]
            if t.kind == "punct":
                if t.text in OPEN:
                    d += 1
                elif t.text in CLOSE:
                    d -= 1
                elif t.text == "|" and d == 0:
                    a = j
                    break
        if a is None:
            raise Undecided(f"lost anchor: no closure argument in call of {body[i].text} in {fnq}")
        b = a + 1
        while not is_p(body[b], "|"):
            b += 1
        end = close
        while end - 1 > b + 1 and is_p(body[end - 1], ","):
            end -= 1        # trailing comma of the argument list
        return body[b + 1:end]

    def emit_wrap(self, ws: WrapSpec):
        s = self.source(ws.source)
        imp, it = s.find_fn(ws.from_header, ws.from_fn)
        fnq = ws.qual
        body = it.toks[it.body_open:]
        frags = {}
        spans: Dict[str, Tuple[int, int]] = {}
        subst_hits = set()
        wleafs: List[tuple] = []
        lifted = set()
        for name, anchor in ws.frags.items():
            toks = list(self.cut_fragment(body, anchor, fnq))
            spans[name] = (toks[0].pos, toks[-1].end)
            self.rep.cuts.append({"item": f"{ws.name}.{name} ({anchor})", "file": s.rel,
                                  "bytes": [toks[0].pos, toks[-1].end], "lines": [s.line(toks[0].pos), s.line(toks[-1].end)]})
            if ws.desugar_try:
                toks = rule_R10(toks, ws.desugar_try, self.rep, fnq)
            for fname, k in sorted(ws.foreach, key=lambda x: -x[1]):
                if fname == name:
                    toks = rule_R7(toks, k, self.rep, fnq)
            if ws.ensure_err:
                toks = rule_R28(toks, ws.ensure_err, self.rep, fnq)
            floops = [(m_, k_, t_) for fname, m_, k_, t_ in ws.loopify if fname == name]
            if floops:
                toks = rule_loopify(toks, floops, self.rep, fnq)
            fmaps = [k for fname, k in ws.optmaps if fname == name]
            if fmaps:
                toks = rule_R29(toks, fmaps, self.rep, fnq)
            fscans = [k for fname, k in ws.scans if fname == name]
            if fscans:
                toks = rule_R13(toks, [(k, k) for k in fscans], self.rep, fnq)
            for lf in ws.lifts:
                # a lift of a wrap names an anchor in one of its fragments: it is applied where the anchor is found
                try:
                    toks = apply_lifts(toks, [lf], self.rep, fnq, wleafs)
                    lifted.add(id(lf))
                except Undecided as e:
                    if "lost anchor" not in str(e):
                        raise
            if self.spec.mode == "verus":
                toks = rule_R1(toks, self.rep)
                toks = rule_R2(toks, self.rep)
                toks = rule_R3(toks, self.rep)
            for old, new in ws.substs:
                # a substitution of a wrap must apply in at least one of its fragments (`subst?`: may apply nowhere)
                try:
                    toks = apply_subst(toks, old.lstrip("?") if old.startswith("?") else old, new, self.rep, fnq)
                    subst_hits.add(old)
                except Undecided:
                    pass
            if name in ws.frag_loops:
                fake = FnSpec("fn", None, ws.name, ws.source)
                fake.loops = ws.frag_loops[name]
                toks = inject_loops(toks, fake, fnq)
            frags[name] = toks
            self.rep.rule("R11 fragment cut out of a function body and wrapped in a synthesised fn")
        for old, _ in ws.substs:
            if not old.startswith("?") and old not in subst_hits:
                raise Undecided(f"lost anchor: subst `{old}` matches nothing in {fnq}")
        # the fragments of a wrap, in the order the body uses them, must be adjacent in /repo up to the text declared in `gap A B = TEXT`
        # (default: nothing): code that sits between two fragments would otherwise silently not be part of the verified text
        order = re.findall(r"\{\{(\w+)\}\}", ws.body)
        for a_, b_ in zip(order, order[1:]):
            if a_ in spans and b_ in spans:
                between = compact(lex(s.src[spans[a_][1]:spans[b_][0]])) if spans[a_][1] <= spans[b_][0] else None
                want = compact(lex(ws.gaps.get((a_, b_), "")))
                if between != want:
                    raise Undecided(f"unaccounted code between fragments {a_} and {b_} of {fnq}: `{between}` (declared: `{want}`)")
        for lf in ws.lifts:
            if id(lf) not in lifted:
                raise Undecided(f"lost anchor: lift {lf.mode} {lf.key}#{lf.k} in no fragment of {fnq}")
        lo_line = self.out.line
        for a in ws.attrs:
            self.out.text(a + "\n", kind="gen")
        self.out.text(ws.sig.strip() + "\n", kind="gen")
        labels = []
        if self.spec.mode == "verus":
            if ws.requires:
                self.out.text("    requires\n", kind="gen")
                for c in ws.requires:
                    self.out.text(f"        {c.text}, // @{c.label}\n", kind="label", label=c.label, fn=fnq, clause="requires")
                    labels.append(c.label)
            if ws.ensures:
                self.out.text("    ensures\n", kind="gen")
                for c in ws.ensures:
                    self.out.text(f"        {c.text}, // @{c.label}\n", kind="label", label=c.label, fn=fnq, clause="ensures")
                    labels.append(c.label)
            self.out.text("    /*CANARY:" + fnq + "*/\n", kind="gen")
        parts = re.split(r"\{\{(\w+)\}\}", ws.body)
        for i, part in enumerate(parts):
            if i % 2 == 0:
                self.out.text(part, kind="gen")
            else:
                if part not in frags:
                    raise Undecided(f"wrap {ws.name}: unknown fragment {part}")
                ft = list(frags[part])
                ft[0] = Tok(ft[0].kind, ft[0].text, ft[0].pos, "")
                self.out.toks(ft, s, fnq)
        self.out.text("\n")
        m = re.search(r"fn\s+(\w+)", ws.sig)
        self.fn_ranges.append({"qual": fnq, "name": m.group(1) if m else ws.name, "lo": lo_line, "hi": self.out.line, "labels": labels,
                               "kind": "fn", "no_canary": ws.no_canary or self.spec.mode != "verus", "src": ws.source,
                               "src_lines": [s.line(it.start), s.line(it.end)]})
        for sigtxt, cut, is_method in wleafs:
            self.out.text("#[verifier::external_body]\npub " + sigtxt.strip() + "\n{ ", kind="gen")
            if cut is None:
                self.out.text("unimplemented!() /* lifted expression not emitted (type adapted in the signature) */", kind="gen")
            else:
                cut = list(cut)
                cut[0] = Tok(cut[0].kind, cut[0].text, cut[0].pos, "")
                self.out.toks(cut, s, fnq + " (lift)")
            self.out.text(" }\n", kind="gen")

    # -- whole unit -------------------------------------------------------
    def build(self) -> str:
        o = self.out
        if self.spec.mode == "rust":
            o.text("// GENERATED by /verif/vtool/extract.py from the working tree of /repo -- do not edit\n", kind="gen")
            for lib in self.spec.libs:
                txt = open(os.path.join(self.libdir, lib)).read()
                o.text(txt if txt.endswith("\n") else txt + "\n", kind="lib", file=lib)
            for kind, payload in self.spec.order:
                if kind == "wrap":
                    self.emit_wrap(payload)
                elif kind == "raw":
                    o.text(payload + "\n", kind="lib", file=os.path.basename(self.spec.path))
                elif kind == "type":
                    self.emit_type(*payload)
                elif kind == "const":
                    self.emit_const(*payload)
                elif kind == "plainfn":
                    rel, name = payload
                    src = self.source(rel)
                    _, it = src.find_fn(None, name)
                    self.cut(src, it, f"fn {name} (verbatim)")
                    toks = strip_vis(it.toks)
                    toks[0] = Tok(toks[0].kind, toks[0].text, toks[0].pos, "")
                    o.text("pub ", kind="gen")
                    o.toks(toks, src, f"fn {name}")
                    o.text("\n")
                    self.rep.rule("R12 whole function emitted verbatim (plain Rust mode)")
                elif kind == "plain":
                    rel, k, name = payload
                    src = self.source(rel)
                    if k == "impl":
                        its = src.find_impl(name if name.startswith("impl") else "impl " + name)
                        if len(its) != 1:
                            raise Undecided(f"plain impl `{name}`: {len(its)} blocks in {rel}")
                        it = its[0]
                    elif k == "fn":
                        _, it = src.find_fn(None, name)
                    elif k in ("const", "static"):
                        it = src.find_const(name)
                    else:
                        it = src.find_type(k, name)
                    self.cut(src, it, f"{k} {name} (verbatim)")
                    for a in it.attrs:
                        o.text(render(a).strip() + "\n", kind="gen")
                    toks = list(it.toks)
                    toks[0] = Tok(toks[0].kind, toks[0].text, toks[0].pos, "")
                    o.toks(toks, src, f"{k} {name}")
                    o.text("\n")
                    self.rep.rule("R12 whole item emitted verbatim (plain Rust mode)")
                else:
                    raise Undecided(f"directive {kind} not supported in rust mode")
            self.rep.fns = self.fn_ranges
            return o.render()
        o.text("// GENERATED by /verif/vtool/extract.py from the working tree of /repo -- do not edit\n"
               "#![allow(unused_imports, dead_code, unused_variables, unused_mut, unused_parens, non_snake_case, unused_assignments)]\n"
               "use vstd::prelude::*;\nuse vstd::multiset::*;\nuse std::ops::Range;\nverus! {\nglobal size_of usize == 8;\n", kind="gen")
        for lib in self.spec.libs:
            p = os.path.join(self.libdir, lib)
            txt = open(p).read()
            o.text(f"// ---- lib/{lib}\n", kind="gen")
            o.text(txt if txt.endswith("\n") else txt + "\n", kind="lib", file=lib)
        for kind, payload in self.spec.order:
            if kind == "type":
                self.emit_type(*payload)
            elif kind == "const":
                self.emit_const(*payload)
            elif kind == "fn":
                self.emit_fn(payload)
            elif kind == "expect":
                self.check_expect(*payload)
            elif kind == "raw":
                o.text(payload + "\n", kind="lib", file=os.path.basename(self.spec.path))
            elif kind == "wrap":
                self.emit_wrap(payload)
        o.text("} // verus!\nfn main() {}\n", kind="gen")
        self.rep.fns = self.fn_ranges
        return o.render()
