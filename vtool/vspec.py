"""Parser for contracts/*.vspec (see DESIGN.md §3.4).

Line oriented.  Column-0 lines are directives; lines indented by two spaces
belong to the preceding `fn` / `leaf` / `closure` block; deeper-indented lines
continue the previous entry.  `#` at column 0 starts a comment.

Directives
  unit NAME
  property Cxx                       default property for labels
  lib FILE...                        files of contracts/lib pasted into the unit
  source PATH                        repository file the following directives cut from
  type (struct|enum) NAME
  const NAME
  accessors IMPLHEADER : n1 n2 ...   `ensures r == self.<n>` per accessor
  fn IMPLHEADER :: NAME              or `fn NAME` for a free function
  leaf IMPLHEADER :: NAME            function kept as an external_body leaf with an assumed contract
  raw TEXT                           pasted verbatim after the extracted items (glue lemmas)

Entries of a fn block
  inherent                           trait impl method emitted as inherent fn (allows `requires`)
  rename NEW                         emit under another name (callers use NEW)
  ret NAME
  requires [label] EXPR
  ensures [label] EXPR
  entry TEXT
  loop K (ghost|invariant|decreases|body_start|body_end|after) TEXT
  after_let NAME[#K] TEXT
  lift chain METHOD K as SIGNATURE-WITH-CONTRACT
  lift let NAME[#K] as SIGNATURE-WITH-CONTRACT
  subst OLD => NEW                   registered token substitution inside this fn (counted, reported)
  foreach K                          apply rule R7 to the K-th `for` loop
"""
from __future__ import annotations
import re
from dataclasses import dataclass, field
from typing import Dict, List, Optional, Tuple


class SpecError(Exception):
    pass


@dataclass
class Clause:
    label: str
    text: str


@dataclass
class Lift:
    mode: str          # chain | let
    key: str           # method name or let name
    k: int
    sig: str           # `fn lift_x(a: T) -> (r: U) requires .. ensures ..`
    args: str = ""     # explicit call arguments (`with (&a, b)`), default: the parameter names


@dataclass
class FnSpec:
    kind: str                      # fn | leaf
    header: Optional[str]          # impl header or None (free fn)
    name: str
    source: str
    inherent: bool = False
    rename: Optional[str] = None
    ret: str = "r"
    requires: List[Clause] = field(default_factory=list)
    ensures: List[Clause] = field(default_factory=list)
    entry: List[str] = field(default_factory=list)
    tail: List[str] = field(default_factory=list)      # injected before the tail expression of the body
    loops: Dict[int, Dict[str, List[str]]] = field(default_factory=dict)
    after_let: List[Tuple[str, int, str]] = field(default_factory=list)
    before_let: List[Tuple[str, int, str]] = field(default_factory=list)
    returns: List[Tuple[str, int, str]] = field(default_factory=list)   # (before_return|after_return_block, K, text)
    lifts: List[Lift] = field(default_factory=list)
    substs: List[Tuple[str, str]] = field(default_factory=list)
    foreach: List[int] = field(default_factory=list)
    desugar_try: List[str] = field(default_factory=list)
    loopify: List[Tuple[str, int, str]] = field(default_factory=list)   # (method, ordinal, element type or ''): iterator chains rewritten by rules R15..R18
    folds: List[int] = field(default_factory=list)          # ordinals of `.fold(` calls rewritten by rule R14
    scans: List[int] = field(default_factory=list)          # ordinals of `.position(` calls rewritten by rule R13   # ordinals of `?` operators (or `all`) rewritten by rule R10
    flatten: List[Tuple[int, str]] = field(default_factory=list)   # (ordinal of the `for`, field): `for &x in V.iter().flatten()` (rule R22)
    nested_in: str = ""            # the fn is a nested item inside the body of this free function (rule R21)
    hoist: List[str] = field(default_factory=list)   # nested fn items cut out of this body (each is emitted by its own `fn` block)
    no_canary: bool = False
    stub: str = ""                 # leaf whose body is not emitted (contract proved in another unit / body not compilable alone)
    attrs: List[str] = field(default_factory=list)

    @property
    def qual(self) -> str:
        return (self.header + " :: " if self.header else "") + self.name


@dataclass
class WrapSpec:
    """a function synthesised around fragments cut out of the middle of a /repo function"""
    name: str
    source: str
    from_header: Optional[str] = None
    from_fn: str = ""
    frags: Dict[str, str] = field(default_factory=dict)     # name -> anchor text
    sig: str = ""
    ret: str = "r"
    requires: List[Clause] = field(default_factory=list)
    ensures: List[Clause] = field(default_factory=list)
    body: str = ""
    attrs: List[str] = field(default_factory=list)
    no_canary: bool = False
    desugar_try: List[str] = field(default_factory=list)     # rule R10 inside the fragments
    substs: List[Tuple[str, str]] = field(default_factory=list)
    lifts: List[Lift] = field(default_factory=list)
    foreach: List[Tuple[str, int]] = field(default_factory=list)          # (fragment, ordinal of the `for` inside it): rule R7 / R23
    scans: List[Tuple[str, int]] = field(default_factory=list)            # (fragment, ordinal of the `.position(` inside it): rule R13
    optmaps: List[Tuple[str, int]] = field(default_factory=list)          # (fragment, ordinal of the `.map(` inside it): rule R29
    loopify: List[Tuple[str, str, int, str]] = field(default_factory=list)  # (fragment, method, ordinal, element type): rules R15..R19, R30
    gaps: Dict[Tuple[str, str], str] = field(default_factory=dict)        # (fragment A, fragment B) -> /repo text allowed between them
    ensure_err: str = ""                                                   # rule R28: anyhow ensure!(c, ..) -> if !(c) { return Err(<this>) }
    frag_loops: Dict[str, Dict[int, Dict[str, List[str]]]] = field(default_factory=dict)   # fragment -> loop ordinal -> entries

    @property
    def qual(self) -> str:
        return f"wrap {self.name} (from {self.from_fn} in {self.source})"


@dataclass
class UnitSpec:
    name: str = ""
    path: str = ""
    prop: str = ""
    libs: List[str] = field(default_factory=list)
    order: List[Tuple[str, object]] = field(default_factory=list)   # (kind, payload) in file order
    fns: List[FnSpec] = field(default_factory=list)
    mode: str = "verus"      # verus | rust (plain Rust output for Kani harness crates)


_label_re = re.compile(r"^\[([A-Za-z0-9_.\-]+)\]\s*(.*)$", re.S)


def parse(path: str) -> UnitSpec:
    u = UnitSpec(path=path)
    src = None
    lines = open(path).read().split("\n")
    # group into logical entries
    entries: List[Tuple[int, str, int]] = []   # (indent, text, lineno)
    for ln, raw in enumerate(lines, 1):
        if not raw.strip() or raw.startswith("#"):
            continue
        ind = len(raw) - len(raw.lstrip(" "))
        txt = raw.rstrip()
        if entries and ((ind > 2) or (ind > entries[-1][0] and entries[-1][0] == 0 and ind != 2)):
            pi, pt, pl = entries[-1]
            entries[-1] = (pi, pt + "\n" + txt, pl)
        else:
            entries.append((ind, txt.strip(), ln))
    cur: Optional[FnSpec] = None
    for ind, txt, ln in entries:
        head, _, rest = txt.partition(" ")
        rest = rest.strip()
        if ind == 0:
            cur = None
            if head == "unit":
                u.name = rest
            elif head == "property":
                u.prop = rest
            elif head == "lib":
                u.libs += rest.split()
            elif head == "source":
                src = rest
            elif head == "type":
                # `type struct NAME [minus Derive ...]`: derives the unit's library replaces by a specified impl (reported as dropped)
                # ... [with OLD=>NEW ...]: path spellings inside the type body rewritten for the flat unit (reported as substitutions)
                withs = []
                if " with " in rest:
                    rest, _, w = rest.partition(" with ")
                    for pair in w.split():
                        a, _, b = pair.partition("=>")
                        withs.append((a, b))
                parts = rest.split()
                k, n = parts[0], parts[1]
                minus = parts[3:] if len(parts) > 2 and parts[2] == "minus" else []
                u.order.append(("type", (src, k, n, minus, withs)))
            elif head == "const":
                u.order.append(("const", (src, rest)))
            elif head == "accessors":
                hdr, _, names = rest.partition(":")
                # header may itself contain ':' only as '::' -- split on ' : '
                m = re.match(r"^(.*?)\s+:\s+(.*)$", rest, re.S)
                if not m:
                    raise SpecError(f"{path}:{ln}: accessors needs ' : '")
                hdr, names = m.group(1).strip(), m.group(2).split()
                for n in names:
                    f = FnSpec("fn", hdr, n, src)
                    f.ensures.append(Clause(f"{u.prop}.acc.{n}", f"r == self.{n}"))
                    f.no_canary = True
                    u.fns.append(f)
                    u.order.append(("fn", f))
            elif head in ("fn", "leaf"):
                if " :: " in rest:
                    hdr, name = rest.rsplit(" :: ", 1)
                else:
                    hdr, name = None, rest
                cur = FnSpec(head, hdr.strip() if hdr else None, name.strip(), src)
                u.fns.append(cur)
                u.order.append(("fn", cur))
            elif head == "raw":
                u.order.append(("raw", txt[len("raw"):].lstrip("\n ")))
            elif head == "expect":
                # expect fn IMPLHEADER :: NAME == BODY   -- the body of a /repo function must still read BODY (tokens), else undecided
                m = re.match(r"^fn\s+(.*?)\s+==\s+(.*)$", rest, re.S)
                if not m:
                    raise SpecError(f"{path}:{ln}: bad expect")
                q = m.group(1)
                hdr, name = (q.rsplit(" :: ", 1) + [None])[:2] if " :: " in q else (None, q)
                u.order.append(("expect", (src, hdr.strip() if hdr else None, name.strip(), m.group(2).strip())))
            elif head == "mode":
                u.mode = rest
            elif head == "plainfn":
                u.order.append(("plainfn", (src, rest.strip())))
            elif head == "plain":
                # plain (struct|enum|const|static|fn|impl) NAME-or-HEADER : the whole item verbatim, attributes included (rust mode)
                k, _, n = rest.partition(" ")
                u.order.append(("plain", (src, k.strip(), n.strip())))
            elif head == "wrap":
                cur = WrapSpec(rest.strip(), src)
                u.order.append(("wrap", cur))
            else:
                raise SpecError(f"{path}:{ln}: unknown directive {head}")
            continue
        if cur is None:
            raise SpecError(f"{path}:{ln}: entry outside fn block")
        if isinstance(cur, WrapSpec):
            if head == "from":
                r2 = rest[3:].strip() if rest.startswith("fn ") else rest
                if " :: " in r2:
                    cur.from_header, cur.from_fn = [x.strip() for x in r2.rsplit(" :: ", 1)]
                else:
                    cur.from_fn = r2.strip()
            elif head == "frag":
                n, _, a = rest.partition("=")
                cur.frags[n.strip()] = a.strip()
            elif head == "sig":
                cur.sig = rest
            elif head == "ret":
                cur.ret = rest
            elif head == "body":
                cur.body = rest
            elif head == "attr":
                cur.attrs.append(rest)
            elif head == "nocanary":
                cur.no_canary = True
            elif head == "desugar_try":
                cur.desugar_try = rest.split()
            elif head == "foreach":
                a, b = rest.split()
                cur.foreach.append((a, int(b)))
            elif head == "scan":
                a, b = rest.split()
                cur.scans.append((a, int(b)))
            elif head == "loopify":
                # loopify FRAG METHOD K [: TYPE]
                m = re.match(r"^(\w+)\s+(\w+)\s+(\d+)\s*(?::\s*(.*))?$", rest)
                if not m:
                    raise SpecError(f"{path}:{ln}: bad wrap loopify entry")
                cur.loopify.append((m.group(1), m.group(2), int(m.group(3)), (m.group(4) or "").strip()))
            elif head == "gap":
                m = re.match(r"^(\w+)\s+(\w+)\s*=\s*(.*)$", rest, re.S)
                if not m:
                    raise SpecError(f"{path}:{ln}: bad gap entry")
                cur.gaps[(m.group(1), m.group(2))] = m.group(3).strip()
            elif head == "optmap":
                a, b = rest.split()
                cur.optmaps.append((a, int(b)))
            elif head == "ensure_macro":
                cur.ensure_err = rest.strip()
            elif head == "loop":
                # loop FRAG K (ghost|invariant|decreases|body_start|body_end|after) TEXT  -- as for fn blocks, inside one fragment
                m = re.match(r"^(\w+)\s+(\d+)\s+(ghost|invariant|decreases|body_start|body_end|after)\s+(.*)$", rest, re.S)
                if not m:
                    raise SpecError(f"{path}:{ln}: bad wrap loop entry")
                val = m.group(4).strip()
                lm = _label_re.match(val) if m.group(3) == "invariant" else None
                if lm:
                    lab = lm.group(1)
                    if "." not in lab or not lab.startswith("C"):
                        lab = f"{u.prop}.{lab}"
                    val = f"[{lab}] {lm.group(2).strip()}"
                cur.frag_loops.setdefault(m.group(1), {}).setdefault(int(m.group(2)), {}).setdefault(m.group(3), []).append(val)
            elif head in ("subst", "subst?"):
                # `subst?`: applied where the text occurs, no anchor lost where it does not (a rewrite the body may or may not need)
                a, _, b = rest.partition("=>")
                cur.substs.append((a.strip(), b.strip()) if head == "subst" else ("?" + a.strip(), b.strip()))
            elif head == "lift":
                m = re.match(r"^(chain|let)\s+([A-Za-z_][A-Za-z0-9_]*)(?:#(\d+)|\s+(\d+))?\s+(?:with\s+\((.*?)\)\s+)?as\s+(.*)$", rest, re.S)
                if not m:
                    raise SpecError(f"{path}:{ln}: bad lift entry")
                cur.lifts.append(Lift(m.group(1), m.group(2), int(m.group(3) or m.group(4) or 1), m.group(6).strip(), (m.group(5) or "").strip()))
            elif head in ("requires", "ensures"):
                m = _label_re.match(rest)
                if not m:
                    raise SpecError(f"{path}:{ln}: {head} needs a [label]")
                lab = m.group(1)
                if "." not in lab or not lab.startswith("C"):
                    lab = f"{u.prop}.{lab}"
                getattr(cur, head).append(Clause(lab, m.group(2).strip()))
            else:
                raise SpecError(f"{path}:{ln}: unknown wrap entry {head}")
            continue
        if head == "inherent":
            cur.inherent = True
        elif head == "rename":
            cur.rename = rest
        elif head == "ret":
            cur.ret = rest
        elif head == "stub":
            cur.stub = rest or "contract only"
        elif head == "nocanary":
            cur.no_canary = True
        elif head == "attr":
            cur.attrs.append(rest)
        elif head in ("requires", "ensures"):
            m = _label_re.match(rest)
            if not m:
                raise SpecError(f"{path}:{ln}: {head} needs a [label]")
            lab = m.group(1)
            if "." not in lab or not lab.startswith("C"):
                lab = f"{u.prop}.{lab}"
            getattr(cur, head).append(Clause(lab, m.group(2).strip()))
        elif head == "entry":
            cur.entry.append(rest)
        elif head == "tail":
            cur.tail.append(rest)
        elif head == "loop":
            m = re.match(r"^(\d+)\s+(ghost|invariant|decreases|body_start|body_end|after)\s+(.*)$", rest, re.S)
            if not m:
                raise SpecError(f"{path}:{ln}: bad loop entry")
            val = m.group(3).strip()
            lm = _label_re.match(val) if m.group(2) == "invariant" else None
            if lm:
                lab = lm.group(1)
                if "." not in lab or not lab.startswith("C"):
                    lab = f"{u.prop}.{lab}"
                val = f"[{lab}] {lm.group(2).strip()}"
            cur.loops.setdefault(int(m.group(1)), {}).setdefault(m.group(2), []).append(val)
        elif head in ("after_let", "before_let"):
            m = re.match(r"^([A-Za-z_][A-Za-z0-9_]*)(?:#(\d+))?\s+(.*)$", rest, re.S)
            (cur.after_let if head == "after_let" else cur.before_let).append((m.group(1), int(m.group(2) or 1), m.group(3)))
        elif head in ("before_return", "after_return_block"):
            m = re.match(r"^(\d+)\s+(.*)$", rest, re.S)
            if not m:
                raise SpecError(f"{path}:{ln}: bad {head} entry")
            cur.returns.append((head, int(m.group(1)), m.group(2)))
        elif head == "lift":
            m = re.match(r"^(chain|let)\s+([A-Za-z_][A-Za-z0-9_]*)(?:#(\d+)|\s+(\d+))?\s+(?:with\s+\((.*?)\)\s+)?as\s+(.*)$", rest, re.S)
            if not m:
                raise SpecError(f"{path}:{ln}: bad lift entry")
            cur.lifts.append(Lift(m.group(1), m.group(2), int(m.group(3) or m.group(4) or 1), m.group(6).strip(), (m.group(5) or "").strip()))
        elif head == "subst":
            a, _, b = rest.partition("=>")
            cur.substs.append((a.strip(), b.strip()))
        elif head == "desugar_try":
            cur.desugar_try = rest.split()
        elif head == "loopify":
            m = re.match(r"^(\w+)(?:#(\d+)|\s+(\d+))?(?:\s*:\s*(.+))?$", rest, re.S)
            if not m:
                raise SpecError(f"{path}:{ln}: bad loopify entry")
            # optional `: TYPE` names the element type where rustc cannot infer it from the generated loop (R19)
            cur.loopify.append((m.group(1), int(m.group(2) or m.group(3) or 1), (m.group(4) or "").strip()))
        elif head == "fold":
            cur.folds += [int(x) for x in rest.split()]
        elif head == "scan":
            cur.scans += [int(x) for x in rest.split()]
        elif head == "foreach":
            cur.foreach.append(int(rest))
        elif head == "flatten":
            a, b = rest.split()
            cur.flatten.append((int(a), b))
        elif head == "contract_from":
            # copy requires/ensures of the same function from another unit's vspec (where the contract is proved)
            other = parse(__import__("os").path.join(__import__("os").path.dirname(path), rest.strip() + ".vspec"))
            src_fn = next((f for f in other.fns if f.header == cur.header and f.name == cur.name), None)
            if src_fn is None:
                raise SpecError(f"{path}:{ln}: {cur.qual} has no contract in unit {rest}")
            cur.requires += src_fn.requires
            cur.ensures += src_fn.ensures
            cur.inherent = cur.inherent or src_fn.inherent
            if not cur.stub:
                cur.stub = f"contract proved in unit {rest.strip()}"
        elif head == "nested_in":
            cur.nested_in = rest
        elif head == "hoist":
            cur.hoist += rest.split()
        else:
            raise SpecError(f"{path}:{ln}: unknown entry {head}")
    if not u.name:
        raise SpecError(f"{path}: no unit name")
    return u
