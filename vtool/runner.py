"""Run Verus on a generated unit and classify every diagnostic.

Outcome classes for one obligation failure
  semantic   an obligation about text extracted from /repo (labelled ensures/requires line,
             safety obligation inside the real body, injected invariant / proof block of a real loop)
  tool       failure inside contracts/lib (pure lemmas; no /repo edit can cause it), rlimit,
             front-end rejection, rustc error                 -> undecided (exit 2)
"""
from __future__ import annotations
import json
import os
import re
import subprocess
import time
from dataclasses import dataclass, field
from typing import Dict, List, Optional

from . import vspec, extract
from .extract import Undecided

VERUS = os.environ.get("VERIF_VERUS", "verus")

# messages Verus emits for a failed proof obligation (anything else at level `error` is a front-end problem)
VERIFY_MSG = re.compile(
    r"^(postcondition not satisfied|precondition not satisfied|possible arithmetic underflow/overflow|"
    r"possible division by zero|possible bit shift underflow/overflow|assertion failed|"
    r"invariant not satisfied at end of loop body|invariant not satisfied before loop|"
    r"loop invariant not satisfied|decreases not satisfied.*|could not prove termination|"
    r"recommendation not met|possible .*overflow.*|index out of bounds.*|"
    r"unreachable.*|constructed value may fail to meet its declared type invariant|"
    r"cannot show invariant holds.*|.*may not terminate.*|"
    r"loop must have a decreases clause|function may be called with.*|"
    r"value may be out of range of the target type.*)", re.I)
RLIMIT_MSG = re.compile(r"(rlimit|resource limit|timed? ?out)", re.I)


@dataclass
class Failure:
    unit: str
    fn: str
    obligation: str          # label or <fn>@file:line
    message: str
    labelled: bool
    cls: str                 # semantic | tool
    gen_line: int
    src: Optional[str] = None     # file:line in /repo
    exit_src: Optional[str] = None
    rendered: str = ""
    origin: str = ""         # label | src | inj | lib | gen


@dataclass
class UnitResult:
    unit: str
    gen_path: str
    ok: bool = False
    undecided: Optional[str] = None
    verified: int = 0
    errors: int = 0
    failures: List[Failure] = field(default_factory=list)
    fn_status: Dict[str, dict] = field(default_factory=dict)    # verus fn name -> {success,time_us,rlimit,mode}
    smt_ms: int = 0
    total_ms: int = 0
    wall_s: float = 0.0
    report: Optional[extract.Report] = None
    labels: Dict[str, dict] = field(default_factory=dict)
    canary: Optional[dict] = None
    assumptions: List[str] = field(default_factory=list)
    cmd: str = ""
    stderr_tail: str = ""
    prop: str = ""
    callers: Dict[str, List[str]] = field(default_factory=dict)   # fn qual -> quals of the unit's functions that call it (transitively)


def call_graph(b, text: str) -> Dict[str, List[str]]:
    """Over-approximated call graph of the generated unit: G calls F if F's name occurs in G's text followed by `(` (functions that
    share a name, e.g. several `try_from`, are all taken).  Returns, per function, everything that reaches it (transitively)."""
    lines = text.split("\n")
    fr = [f for f in b.fn_ranges if f.get("kind", "fn") in ("fn", "leaf")]
    direct = {f["qual"]: set() for f in fr}          # callee -> callers
    for g in fr:
        body = "\n".join(lines[g["lo"] - 1:g["hi"]])
        for f in fr:
            if f is g:
                continue
            if re.search(r"(?<![A-Za-z0-9_])" + re.escape(f["name"]) + r"\s*\(", body):
                direct[f["qual"]].add(g["qual"])
    # convenience conversions reach `from` / `try_from` bodies without naming them
    for g in fr:
        body = "\n".join(lines[g["lo"] - 1:g["hi"]])
        if re.search(r"\.(try_)?into\(\)|From::from\(", body):
            for f in fr:
                if f is not g and f["name"] in ("from", "try_from"):
                    direct[f["qual"]].add(g["qual"])
    reach = {}
    for f in direct:
        seen, todo = set(), list(direct[f])
        while todo:
            x = todo.pop()
            if x in seen:
                continue
            seen.add(x)
            todo += list(direct.get(x, ()))
        reach[f] = sorted(seen)
    return reach


def _run_verus(path: str, timeout: int, extra: List[str]) -> tuple:
    cmd = [VERUS, os.path.basename(path), "--output-json", "--time", "--multiple-errors", "8"] + extra + ["--", "--error-format=json"]
    t0 = time.time()
    # own process group: on a timeout the solver processes that verus started are killed with it
    proc = subprocess.Popen(cmd, cwd=os.path.dirname(path), stdout=subprocess.PIPE, stderr=subprocess.PIPE, text=True, start_new_session=True)
    try:
        so, se = proc.communicate(timeout=timeout)
    except subprocess.TimeoutExpired:
        try:
            os.killpg(proc.pid, 9)
        except OSError:
            pass
        proc.communicate()
        return None, [], time.time() - t0, " ".join(cmd), "timeout"

    class _P:
        stdout, stderr = so, se
    p = _P
    wall = time.time() - t0
    try:
        out = json.loads(p.stdout) if p.stdout.strip() else None
    except json.JSONDecodeError:
        out = None
    diags = []
    other = []
    for l in p.stderr.split("\n"):
        l = l.strip()
        if not l:
            continue
        if l.startswith("{"):
            try:
                diags.append(json.loads(l))
                continue
            except json.JSONDecodeError:
                pass
        other.append(l)
    return out, diags, wall, " ".join(cmd), "\n".join(other[-15:])


def scan_assumptions(text: str) -> List[str]:
    """mechanical scan of the generated file for everything that is assumed rather than proved"""
    hits = []
    lines = text.split("\n")
    for i, l in enumerate(lines):
        s = l.strip()
        if s.startswith("//"):
            continue
        for pat, what in ((r"\bassume\s*\(", "assume"), (r"\badmit\s*\(", "admit"),
                          (r"#\[verifier::external_body\]", "external_body"),
                          (r"#\[verifier::external\]", "external"),
                          (r"\bassume_specification\b", "assume_specification"),
                          (r"\buninterp\s+spec\s+fn", "uninterp"),
                          (r"#\[verifier::external_type_specification\]", "external_type_specification"),
                          (r"#\[verifier::external_fn_specification\]", "external_fn_specification"),
                          (r"\baxiom\b.*\bfn\b", "axiom")):
            if re.search(pat, s):
                # name = next fn / struct / ident on this or following lines
                name = ""
                for k in range(i, min(i + 4, len(lines))):
                    m = re.search(r"assume_specification\s*(?:<[^\[]*>)?\s*\[\s*(.+?)\s*\]\s*\(", lines[k])
                    if m:
                        name = m.group(1).strip()
                        break
                    m = re.search(r"\b(?:fn|struct|const)\s+([A-Za-z_][A-Za-z0-9_]*)", lines[k])
                    if m:
                        name = m.group(1)
                        break
                hits.append(f"{what}:{name}")
    return sorted(set(hits))


def run_unit(spec_path: str, repo: str, libdir: str, outdir: str, timeout: int = 600, canary: bool = True,
             rlimit: Optional[float] = None) -> UnitResult:
    u = vspec.parse(spec_path)
    os.makedirs(outdir, exist_ok=True)
    gen = os.path.join(outdir, u.name + ".rs")
    res = UnitResult(u.name, gen)
    res.prop = u.prop
    t0 = time.time()
    try:
        b = extract.UnitBuilder(repo, libdir, u)
        text = b.build()
    except Undecided as e:
        res.undecided = str(e)
        return res
    except Exception as e:  # extractor bug: never an alarm
        res.undecided = f"extractor error: {type(e).__name__}: {e}"
        return res
    open(gen, "w").write(text)
    res.report = b.rep
    try:
        res.callers = call_graph(b, text)
    except Exception:
        res.callers = {}
    res.assumptions = scan_assumptions(text)
    # registered assumptions of this unit (contracts/<unit>.assumptions, committed): anything new makes the unit undecided
    reg = os.path.join(os.path.dirname(spec_path), u.name + ".assumptions")
    if os.path.exists(reg):
        known = {l.strip() for l in open(reg) if l.strip() and not l.startswith("#")}
        extra = [a for a in res.assumptions if a not in known]
        if extra:
            res.undecided = "unregistered assumption(s) in the generated unit: " + ", ".join(extra)
            return res
    for f in b.fn_ranges:
        for lab in f["labels"]:
            key = lab if lab not in res.labels else f"{lab} [{f['name']}]"
            res.labels[key] = {"fn": f["qual"], "src": f"{f['src']}:{f['src_lines'][0]}-{f['src_lines'][1]}"}
    extra = ["--rlimit", str(rlimit)] if rlimit else []
    out, diags, wall, cmd, other = _run_verus(gen, timeout, extra)
    res.cmd = cmd
    res.stderr_tail = other
    if other == "timeout" and out is None:
        res.undecided = f"verus timeout after {timeout}s"
        return res
    _classify(res, b, out, diags)
    if canary and res.undecided is None:
        res.canary = _canary(res, b, text, outdir, timeout, extra)
        if res.canary.get("problem") and res.undecided is None:
            res.undecided = "vacuity guard: " + res.canary["problem"]
    res.wall_s = time.time() - t0
    res.ok = res.undecided is None and not res.failures
    return res


def _fn_of_line(b: extract.UnitBuilder, line: int) -> Optional[dict]:
    for f in b.fn_ranges:
        if f["lo"] <= line <= f["hi"]:
            return f
    return None


def _classify(res: UnitResult, b: extract.UnitBuilder, out, diags):
    vr = (out or {}).get("verification-results")
    errs = [d for d in diags if d.get("level") == "error" and not d.get("message", "").startswith("aborting due to")]
    if out is None or vr is None:
        msg = "; ".join(d.get("message", "")[:200] for d in errs[:3]) or res.stderr_tail[-300:]
        res.undecided = f"verus produced no result (front-end/rustc error): {msg}"
        return
    res.verified = vr.get("verified", 0)
    res.errors = vr.get("errors", 0)
    tm = out.get("times-ms", {})
    res.total_ms = tm.get("total", 0)
    res.smt_ms = tm.get("smt", {}).get("smt-run", 0)
    for m in tm.get("smt", {}).get("smt-run-module-times", []):
        for f in m.get("function-breakdown", []):
            res.fn_status[f["function"]] = {"success": f["success"], "time_us": f["time-micros"],
                                            "rlimit": f["rlimit"], "mode": f.get("mode:", "")}
    if vr.get("encountered-vir-error"):
        msg = "; ".join(d.get("message", "")[:200] for d in errs[:3])
        res.undecided = f"verus front end rejected the unit: {msg}"
        return
    for d in errs:
        msg = d.get("message", "")
        spans = d.get("spans", [])
        prim = next((s for s in spans if s.get("is_primary")), spans[0] if spans else None)
        if not VERIFY_MSG.match(msg):
            if RLIMIT_MSG.search(msg):
                res.undecided = f"resource limit: {msg[:200]}"
            else:
                res.undecided = f"non-verification error from verus/rustc: {msg[:300]}"
            return
        if prim is None or prim.get("file_name") != os.path.basename(res.gen_path):
            # primary span outside our file (e.g. vstd precondition): take first span inside
            prim = next((s for s in spans if s.get("file_name") == os.path.basename(res.gen_path)), None)
            if prim is None:
                res.undecided = f"diagnostic without location: {msg[:200]}"
                return
        line = prim["line_start"]
        tag = b.out.map.get(line) or {"kind": "gen"}
        f = _fn_of_line(b, line)
        # exit point / call site inside the real body, if any
        exit_src = None
        for s in spans:
            if s is prim or s.get("file_name") != os.path.basename(res.gen_path):
                continue
            t2 = b.out.map.get(s["line_start"])
            if t2 and t2.get("kind") == "src":
                exit_src = f"{t2['file']}:{t2['line']}"
        rendered = d.get("rendered", "")
        if tag["kind"] == "label":
            fl = Failure(res.unit, tag["fn"], tag["label"], msg, True, "semantic", line, None, exit_src, rendered)
        elif tag["kind"] == "src":
            ob = f"{tag['fn']}@{tag['file']}:{tag['line']}:{_short(msg)}"
            fl = Failure(res.unit, tag["fn"], ob, msg, False, "semantic", line, f"{tag['file']}:{tag['line']}", exit_src, rendered)
        elif tag["kind"] == "inj":
            fl = Failure(res.unit, tag["fn"], tag["label"] + ":" + _short(msg), msg, False, "semantic", line, None, exit_src, rendered)
        elif tag["kind"] == "lib":
            fl = Failure(res.unit, "lib:" + tag.get("file", "?"), f"lib:{tag.get('file')}:{line}", msg, False, "tool", line, None, None, rendered)
        else:
            fnq = f["qual"] if f else "?"
            fl = Failure(res.unit, fnq, f"{fnq}@gen:{line}:{_short(msg)}", msg, False, "semantic" if f else "tool", line, None, exit_src, rendered)
        fl.origin = tag["kind"]
        res.failures.append(fl)
    if not errs and not vr.get("success"):
        res.undecided = "verus reported failure without diagnostics"
    if any(f.cls == "tool" for f in res.failures) and res.undecided is None:
        res.undecided = "failure inside contracts/lib: " + "; ".join(f.obligation for f in res.failures if f.cls == "tool")[:300]


def _short(msg: str) -> str:
    m = msg.lower()
    for k, v in (("overflow", "overflow"), ("precondition", "precondition"), ("postcondition", "postcondition"),
                 ("division", "div0"), ("invariant", "invariant"), ("assertion", "assert"), ("decreases", "decreases"),
                 ("terminat", "termination"), ("shift", "shift"), ("range", "range")):
        if k in m:
            return v
    return "obligation"


CANARY_TIMEOUT_S = 240


def _canary(res: UnitResult, b: extract.UnitBuilder, text: str, outdir: str, timeout: int, extra) -> dict:
    """twin files: `ensures false` on contracted functions; each must FAIL, otherwise the function's
    precondition is contradictory or no exit is reachable (vacuous success).  A callee with `ensures false`
    would let its callers prove anything, so functions that may call each other (by name) go to different twins."""
    want = [f for f in b.fn_ranges if not f["no_canary"]]
    if not want:
        return {"functions": 0, "failed_as_expected": 0, "twins": 0}
    lines = text.split("\n")
    alias = {"try_into": "try_from", "into": "from"}

    def mentions(f):
        body = "\n".join(lines[f["lo"] - 1:f["hi"]])
        ids = set(re.findall(r"[A-Za-z_][A-Za-z0-9_]*", body.split("/*CANARY:", 1)[-1]))
        return ids | {alias[i] for i in ids if i in alias}
    groups: List[List[dict]] = []
    ment = {f["qual"]: mentions(f) for f in want}
    for f in want:
        for g in groups:
            if all(f["name"] not in ment[o["qual"]] and o["name"] not in ment[f["qual"]] for o in g):
                g.append(f)
                break
        else:
            groups.append([f])
    hit = set()
    t0 = time.time()
    problem = None

    def one(gi_g):
        gi, g = gi_g
        twin = text
        for f in g:
            marker = f"/*CANARY:{f['qual']}*/"
            twin = twin.replace(marker, ("false, // @CANARY" if _has_ensures(text, marker) else "ensures false, // @CANARY"), 1)
        path = os.path.join(outdir, f"{res.unit}_canary{gi}.rs")
        open(path, "w").write(twin)
        # a twin asks the solver to prove `false`; when that is not provable the search is cut by the resource limit, but
        # not every theory respects it, so the twin also gets a wall-clock limit of its own
        r = _run_verus(path, min(timeout, CANARY_TIMEOUT_S), extra)
        try:
            os.remove(path)
        except OSError:
            pass
        return r
    import concurrent.futures as cf
    with cf.ThreadPoolExecutor(max_workers=4) as ex:
        outs = list(ex.map(one, enumerate(groups)))
    inconclusive = []
    for g, (out, diags, wall, cmd, other) in zip(groups, outs):
        if other == "timeout" and out is None:
            # nothing was proved within the limit -- in particular not `false`; the vacuity question stays open for these
            # functions (listed in the evidence) and is not turned into a verdict on the unit
            inconclusive += [f["qual"] for f in g]
            hit.update(f["qual"] for f in g)
            continue
        if out is None or "verification-results" not in out or out["verification-results"].get("encountered-vir-error"):
            problem = "canary twin did not run: " + (other or "")[-200:]
            continue
        for d in diags:
            if d.get("level") != "error":
                continue
            for s in d.get("spans", []):
                for t in s.get("text", []):
                    if "@CANARY" in t.get("text", ""):
                        f = _fn_of_line(b, s["line_start"])
                        if f:
                            hit.add(f["qual"])
    missing = [f["qual"] for f in want if f["qual"] not in hit]
    r = {"functions": len(want), "failed_as_expected": len(hit) - len(inconclusive), "twins": len(groups), "wall_s": round(time.time() - t0, 2)}
    if inconclusive:
        r["inconclusive_timeout"] = inconclusive
    if missing and not problem:
        problem = "`ensures false` verified for: " + ", ".join(missing)
    if problem:
        r["problem"] = problem
    return r


def _has_ensures(text: str, marker: str) -> bool:
    i = text.find(marker)
    # look backwards to the start of this signature for an `ensures` keyword
    j = text.rfind("\npub fn ", 0, i)
    k = text.rfind("\nfn ", 0, i)
    j = max(j, k)
    return "ensures\n" in text[j:i]
