"""Native replay / bounded cross-checks against the real crates (sources in /verif/replay/src).

A throw-away Cargo package is generated under /verif/work (path dependencies on the working tree of /repo),
built offline with /repo's Cargo.lock, and run.  Nothing is written to /repo."""
import hashlib
import json
import os
import shutil
import subprocess
import time


FRAG_RING_STUB = ("pub const TPC_ANODE_WIRES: usize = 256;\n"
                  "pub fn contiguous_ranges(_w: &[Option<Vec<f64>>; 256]) -> Vec<(usize, usize)> { unimplemented!() }\n"
                  "pub fn range_to_indices(_r: (usize, usize)) -> Box<dyn Iterator<Item = usize>> { unimplemented!() }\n"
                  "pub fn range_to_len(_r: (usize, usize)) -> usize { unimplemented!() }\n"
                  "pub fn problem_dimensions(_w: &[Option<Vec<f64>>; 256], _r: (usize, usize)) -> (usize, usize) { unimplemented!() }\n")


FRAG_HOUGH_STUB = ("struct HoughSpaceAccumulator { rho_bins: u32, theta_bins: u32, accumulator: IndexMap<(u32, u32), Vec<SpacePoint>> }\n"
                   "impl HoughSpaceAccumulator {\n"
                   "    fn get_bins(&self, _p: SpacePoint) -> Vec<(u32, u32)> { unimplemented!() }\n"
                   "    fn add(&mut self, _p: SpacePoint) { unimplemented!() }\n"
                   "    fn remove_unchecked(&mut self, _p: SpacePoint) { unimplemented!() }\n"
                   "    fn most_popular(&self) -> Vec<SpacePoint> { unimplemented!() }\n}\n")


def _frag(repo, verif, unit, path, stub, force_stub=False):
    """write the plain-Rust fragment unit, or its stub (with FRAG_*_OK = false) when the anchor is lost"""
    import sys
    sys.path.insert(0, verif)
    from vtool import vspec, extract
    flag = unit.upper() + "_OK"
    try:
        if force_stub:
            raise RuntimeError("the verbatim text does not compile inside its wrapper")
        u = vspec.parse(os.path.join(verif, "contracts", unit + ".vspec"))
        text = extract.UnitBuilder(repo, os.path.join(verif, "contracts", "lib"), u).build()
        text += f"pub const {flag}: bool = true;\n"
    except Exception as e:
        text = "// fragment extraction failed: " + str(e).replace("\n", " ") + "\n" + stub + f"pub const {flag}: bool = false;\n"
    if not os.path.exists(path) or open(path).read() != text:
        open(path, "w").write(text)


def _build(repo, verif, physics=False):
    key = hashlib.sha1(os.path.abspath(repo).encode()).hexdigest()[:8]
    wd = os.path.join(verif, "work", f"replay-{key}")
    os.makedirs(wd, exist_ok=True)
    toml = f'''[package]
name = "verif_replay"
version = "0.0.0"
edition = "2021"
[[bin]]
name = "verif_replay"
path = "{verif}/replay/src/main.rs"
[dependencies]
alpha_g_detector = {{ path = "{os.path.abspath(repo)}/detector" }}
alpha_g_physics = {{ path = "{os.path.abspath(repo)}/physics", optional = true }}
uom = {{ version = "0.35.0", optional = true }}
alpha-g-analysis = {{ path = "{os.path.abspath(repo)}/analysis", optional = true }}
serde_json = "1"
crc32c = "0.6.4"
indexmap = {{ version = "2.1.0", optional = true }}
[features]
physics = ["alpha_g_physics", "uom", "alpha-g-analysis", "indexmap"]
[profile.release]
debug-assertions = true
overflow-checks = true
opt-level = 1
[workspace]
'''
    p = os.path.join(wd, "Cargo.toml")
    if not os.path.exists(p) or open(p).read() != toml:
        open(p, "w").write(toml)
    lock = os.path.join(wd, "Cargo.lock")
    if not os.path.exists(lock):
        shutil.copy(os.path.join(repo, "Cargo.lock"), lock)
    # one target directory per repository path: concurrent checks against different trees must not share a binary
    env = dict(os.environ, CARGO_NET_OFFLINE="true", CARGO_TARGET_DIR=os.path.join(verif, "work", f"replay-target-{key}"),
               VERIF_REPO_DIR=os.path.abspath(repo))
    # fragment files compiled into the replay crate (verbatim function text cut out of the working tree)
    fdir = os.path.join(wd, "frag")
    os.makedirs(fdir, exist_ok=True)
    env["VERIF_FRAG_DIR"] = fdir
    _frag(repo, verif, "frag_ring", os.path.join(fdir, "frag_ring.rs"), FRAG_RING_STUB)
    _frag(repo, verif, "frag_hough", os.path.join(fdir, "frag_hough.rs"), FRAG_HOUGH_STUB)
    # always try the full build (detector + physics) so that the binary does not flip between feature sets; fall back to the
    # detector-only build when physics does not compile and the caller does not need it
    exe = os.path.join(env["CARGO_TARGET_DIR"], "release", "verif_replay")
    r = subprocess.run(["cargo", "build", "--release", "--offline", "-q", "--features", "physics"], cwd=wd, env=env,
                       capture_output=True, text=True, timeout=3600)
    if r.returncode == 0:
        return exe, None
    stubbed = False
    for unit, stub in (("frag_ring", FRAG_RING_STUB), ("frag_hough", FRAG_HOUGH_STUB)):
        if unit + ".rs" in (r.stderr or ""):
            # the verbatim fragment does not compile in its wrapper (e.g. a changed signature): stub it (its check -> undecided)
            # so that every other native check keeps working
            _frag(repo, verif, unit, os.path.join(fdir, unit + ".rs"), stub, force_stub=True)
            stubbed = True
    if stubbed:
        r = subprocess.run(["cargo", "build", "--release", "--offline", "-q", "--features", "physics"], cwd=wd, env=env,
                           capture_output=True, text=True, timeout=3600)
        if r.returncode == 0:
            return exe, None
    if physics:
        return None, (r.stderr or r.stdout)[-1500:]
    r = subprocess.run(["cargo", "build", "--release", "--offline", "-q"], cwd=wd, env=env, capture_output=True, text=True, timeout=1800)
    if r.returncode != 0:
        return None, (r.stderr or r.stdout)[-1500:]
    return exe, None


PHYSICS_OPS = {"c09_pad", "c13_sym", "c13_full_ring", "c09_event", "c10_table", "c18_grid", "c15_cluster", "c15_vertex", "c15_acc", "event", "c19_sort"}


def run(repo, verif, prop, checks, seed, tier):
    out = {"checks": []}
    if not checks:
        return out
    exe, err = _build(repo, verif, physics=any(c in PHYSICS_OPS for c in checks))
    if exe is None:
        out["undecided"] = "replay crate does not build against the working tree: " + err
        return out
    for c in checks:
        t0 = time.time()
        try:
            r = subprocess.run([exe, "run", c, str(seed), tier], capture_output=True, text=True, timeout=3600)
            d = json.loads(r.stdout.strip().split("\n")[-1])
        except Exception as e:
            out["checks"].append({"name": c, "status": "undecided", "reason": f"{type(e).__name__}: {e}"})
            out["undecided"] = f"native check {c} did not produce a result"
            continue
        d["name"] = c
        d["time_s"] = round(time.time() - t0, 2)
        if "error" in d:
            d["status"] = "undecided"
            d["reason"] = d["error"]
            out["undecided"] = f"native check {c}: {d['error']}"
        out["checks"].append(d)
    return out


def confirm(repo, verif, prop, witness):
    """run the real function on a witness; -> {contradicts, real, spec} or None"""
    if not witness or "op" not in witness:
        return None
    if witness["op"] == "rerun_e2e":
        # the failing case is a scenario of a deterministic end-to-end check: run the real binaries on it again
        from . import csvcheck
        c = csvcheck.CHECKS[witness["check"]](repo, verif, "quick")
        return {"contradicts": c["status"] == "failed", "real": c.get("reason", c["status"]), "spec": "see check " + witness["check"]}
    if witness["op"] == "rerun_native":
        r = run(repo, verif, prop, [witness["check"]], 0, "quick")
        c = (r.get("checks") or [{}])[0]
        return {"contradicts": c.get("status") == "failed", "real": c.get("reason", c.get("status")), "spec": "see check " + witness["check"]}
    exe, err = _build(repo, verif, physics=witness.get("op") in PHYSICS_OPS)
    if exe is None:
        return {"error": err}
    wd = os.path.join(verif, "work")
    path = os.path.join(wd, f"witness-{os.getpid()}.json")
    json.dump(witness, open(path, "w"))
    try:
        r = subprocess.run([exe, "confirm", path], capture_output=True, text=True, timeout=600)
        return json.loads(r.stdout.strip().split("\n")[-1])
    except Exception as e:
        return {"error": f"{type(e).__name__}: {e}"}
    finally:
        try:
            os.remove(path)
        except OSError:
            pass


def replay(path, repo, verif):
    rp = json.load(open(path))
    print(f"property={rp.get('property')} obligation={rp.get('obligation')} engine={rp.get('engine')}")
    print(f"message: {rp.get('message')}" + (f" at {rp.get('src')}" if rp.get("src") else ""))
    w = rp.get("input")
    if not w:
        print("no failing input recorded (no-failing-input-found); verifier output follows")
        print(rp.get("verifier_output", ""))
        return 1
    c = confirm(repo, verif, rp.get("property"), w)
    print("input:", json.dumps(w)[:2000])
    print("real code:", c)
    return 1 if c and c.get("contradicts") else 0
