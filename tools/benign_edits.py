"""Semantics-preserving edits used to probe for false alarms (DESIGN.md §9.10).
Each entry: (property, file relative to the repository root, text to replace (first occurrence), replacement).
tools/benign_probe.py applies them one at a time to a scratch copy of /repo and runs the Verus side of the property's check;
the expected outcome is exit 0 (still proved) or exit 2 (undecided), never exit 1."""

DRIFT = "physics/src/drift.rs"
TF = "physics/src/reconstruction/track_finding.rs"
VF = "physics/src/reconstruction/vertex_fitting.rs"
TRG = "detector/src/trigger.rs"
PW = "detector/src/padwing.rs"
A16 = "detector/src/alpha16.rs"
AW = "detector/src/alpha16/aw_map.rs"
LIB = "physics/src/lib.rs"
CB = "analysis/src/bin/alpha-g-chronobox-timestamps/main.rs"
VX = "analysis/src/bin/alpha-g-vertices/main.rs"
AN = "analysis/src/lib.rs"
WIRES = "physics/src/deconvolution/wires.rs"
SC = "analysis/src/bin/alpha-g-trg-scalers/main.rs"

EDITS = [
    # ---- C18
    ("C18", DRIFT, "let lhs_index = rhs_index - 1;", "let lhs_index = rhs_index.checked_sub(1).unwrap();"),
    ("C18", DRIFT, "if t < self.0[0].0 || t > self.0[self.0.len() - 1].0 {", "if !(t >= self.0[0].0 && t <= self.0[self.0.len() - 1].0) {"),
    ("C18", DRIFT, ".position(|&(time, _, _)| time > t)", ".position(|&(time, _, _)| t < time)"),
    ("C18", DRIFT, "let fraction = (t - lhs_time) / (rhs_time - lhs_time);", "let span = rhs_time - lhs_time;\n        let fraction = (t - lhs_time) / span;"),
    ("C18", DRIFT, ".find(|(_, z_upper_bound)| z_upper_bound >= &z_abs)", ".find(|(_, z_upper_bound)| &z_abs <= z_upper_bound)"),
    # ---- C15
    ("C15", TF, "if cluster.len() < min_num_points_per_cluster {", "if min_num_points_per_cluster > cluster.len() {"),
    ("C15", TF, "if best.len() <= prev_best.len() {", "if prev_best.len() >= best.len() {"),
    ("C15", TF, "sp.swap_remove(index);", "let _removed = sp.swap_remove(index);"),
    ("C15", TF, "sp.swap_remove(index);", "sp.remove(index);"),
    ("C15", TF, "cluster.push(points.swap_remove(j));", "cluster.push(points.remove(j));"),
    ("C15", TF, "cluster.push(points.swap_remove(j));", "let p = points.swap_remove(j); cluster.push(p);"),
    ("C15", TF, "if cluster[i].distance(points[j]) <= max_distance {", "let d = cluster[i].distance(points[j]);\n                if d <= max_distance {"),
    ("C15", TF, "let mut cluster = vec![point];", "let mut cluster = Vec::new(); cluster.push(point);"),
    ("C15", VF, "if tracks.is_empty() {\n        return Vec::new();\n    }", "if tracks.len() == 0 {\n        return vec![];\n    }"),
    ("C15", VF, "if (current_z - last_z).abs() < max_beamline_clustering_distance {", "if (last_z - current_z).abs() < max_beamline_clustering_distance {"),
    # ---- decoders
    ("C06", TRG, "if drift_veto_counter > input_counter || drift_veto_counter < output_counter {", "if input_counter < drift_veto_counter || output_counter > drift_veto_counter {"),
    ("C06", TRG, "if (dummy & 0xFF000000) != 0 {", "if dummy >> 24 != 0 {"),
    ("C06", TRG, "if slice.len() != 80 {", "if !(slice.len() == 80) {"),
    ("C06", TRG, "if (udp_counter & 0x80000000) != 0 {", "if udp_counter >= 0x80000000 {"),
    ("C06", TRG, "if (header & 0xF0000000) != 0x80000000 {", "if header >> 28 != 8 {"),
    ("C06", TRG, "let satisfied_mlu = (dummy & 0x80000000) != 0;", "let satisfied_mlu = dummy >> 31 == 1;"),
    ("C03", PW, "if slice.len() % 4 != 0 {", "if slice.len() & 3 != 0 {"),
    ("C03", PW, "if slice.len() < 28 {", "if slice.len() <= 27 {"),
    ("C03", PW, "if flags != 0 && flags != 1 {", "if flags > 1 {"),
    ("C03", PW, "if chunk_length < min || chunk_length > max {", "if !(min <= chunk_length && chunk_length <= max) {"),
    ("C03", PW, "let max = slice.len() - 24;\n        let min = max - 3;", "let min = slice.len() - 27;\n        let max = min + 3;"),
    ("C03", PW, "let expected_crc = !crc32c::crc32c(&slice[0..16]);", "let expected_crc = !crc32c::crc32c(&slice[..16]);"),
    ("C03", PW, "if header_crc != expected_crc {", "if expected_crc != header_crc {"),
    ("C03", PW, "let padding = slice[20 + chunk_length..slice.len() - 4].to_vec();", "let padding = slice[chunk_length + 20..slice.len() - 4].to_vec();"),
    ("C05", PW, "let bytes_per_channel = if requested_samples % 2 == 0 {", "let bytes_per_channel = if requested_samples & 1 == 0 {"),
    ("C05", PW, "if slice.len() < 56 {", "if slice.len() <= 55 {"),
    ("C05", PW, "if last_sca_cell > 511 {", "if last_sca_cell >= 512 {"),
    ("C05", PW, "if bytes_per_channel * channels_sent.len() + 4 != data.len() {", "if data.len() != bytes_per_channel * channels_sent.len() + 4 {"),
    ("C05", PW, "            4 + 2 * requested_samples + 2\n        };", "            6 + 2 * requested_samples\n        };"),
    ("C05", PW, "if found_channel != channel {", "if channel != found_channel {"),
    ("C05", PW, "if found_size != requested_samples {", "if requested_samples != found_size {"),
    ("C04", PW, "if chunks.is_empty() {", "if chunks.len() == 0 {"),
    ("C02", A16, "if slice.len() < 16 {", "if 16 > slice.len() {"),
    ("C02", A16, "if waveform_bytes % 2 != 0 {", "if waveform_bytes & 1 == 1 {"),
    ("C02", A16, "let last_index = (keep_last - 1) * 2 - 2;", "let last_index = keep_last * 2 - 4;"),
    ("C02", A16, "let keep_bit = (footer >> 12) & 1 == 1;", "let keep_bit = footer & 0x1000 != 0;"),
    # ---- maps
    ("C08", AW, "0..=15 => preamp_1 * 16 + mapped_channel,", "0..=15 => mapped_channel + preamp_1 * 16,"),
    ("C08", AW, "0..=15 => preamp_1 * 16 + mapped_channel,", "0..=15 => (preamp_1 << 4) + mapped_channel,"),
    ("C08", AW, "            u32::MAX => &PREAMPS_MAP_2941,\n            2941.. => &PREAMPS_MAP_2941,", "            2941.. => &PREAMPS_MAP_2941,"),
    # ---- C13
    ("C13", WIRES, "if start < end {\n            ranges.push((start, end));\n        }", "if end > start {\n            ranges.push((start, end));\n        }"),
    ("C13", WIRES, "start = end + 1;\n        end = start;", "end += 1;\n        start = end;"),
    # ---- C10 arms
    ("C10", LIB, "if waveform.is_empty() {\n                        continue;\n                    }", "if waveform.len() == 0 {\n                        continue;\n                    }"),
    ("C10", LIB, "if (bank_name.board_id(), bank_name.channel_id()) != (board_id, channel_id) {", "if bank_name.board_id() != board_id || bank_name.channel_id() != channel_id {"),
    ("C10", LIB, "if wire_bank_found[wire_index] {", "if wire_bank_found[wire_index] == true {"),
    ("C10", LIB, "let wire_index = usize::from(wire_position);", "let wire_index: usize = wire_position.into();"),
    ("C10", LIB, "let baseline = try_wire_baseline(run_number, wire_position)?;\n                        let gain = try_wire_gain(run_number, wire_position)?;", "let gain = try_wire_gain(run_number, wire_position)?;\n                        let baseline = try_wire_baseline(run_number, wire_position)?;"),
    ("C10", LIB, "let wire_position = TpcWirePosition::try_new(run_number, board_id, channel_id)?;", "let wire_position = TpcWirePosition::try_new(run_number, bank_name.board_id(), bank_name.channel_id())?;"),
    ("C10", LIB, "if pad_signals[pad_index.0][pad_index.1].is_some() {", "if let Some(_) = pad_signals[pad_index.0][pad_index.1] {"),
    ("C10", LIB, "let gain = try_pad_gain(run_number, pad_position)?;\n                        let delay = try_pad_delay(run_number)?;", "let delay = try_pad_delay(run_number)?;\n                        let gain = try_pad_gain(run_number, pad_position)?;"),
    ("C10", LIB, "if trigger_timestamp.is_some() {", "if let Some(_) = trigger_timestamp {"),
    ("C10", LIB, "if key.0 != bank_name.board_id() {", "if bank_name.board_id() != key.0 {"),
    # ---- C19 / C20
    ("C19", VX, "let current = timestamp.unwrap_or(previous.unwrap_or(0));", "let current = match timestamp { Some(t) => t, None => previous.unwrap_or(0) };"),
    ("C19", VX, "*cumulative += u64::from(delta);", "*cumulative = *cumulative + u64::from(delta);"),
    ("C19", AN, "if *run_number != expected_run_number {", "if expected_run_number != *run_number {"),
    ("C19", AN, "if window[0].1 == window[1].1 {", "if window[1].1 == window[0].1 {"),
    ("C20", CB, "let epoch_counter = (previous.wrap_around_counter() + 1) / 2;", "let epoch_counter = (previous.wrap_around_counter() + 1) >> 1;"),
    ("C20", CB, "+ u64::from(epoch_counter) * (1u64 << TIMESTAMP_BITS);", "+ (u64::from(epoch_counter) << TIMESTAMP_BITS);"),
    ("C20", CB, "let top_bit = (timestamp_counter >> (TIMESTAMP_BITS - 1)) == 1;", "let top_bit = timestamp_counter >= (1 << (TIMESTAMP_BITS - 1));"),
    ("C20", CB, "if top_bit != previous.timestamp_top_bit {", "if !(top_bit == previous.timestamp_top_bit) {"),
    # ---- continuation session: the row loops of the three binaries
    ("C20", CB, "Some(_) => (None, chunk),", "Some(_) => (None, &chunk[..]),"),
    ("C20", CB, "leading_edge: matches!(tsc.edge, EdgeType::Leading),", "leading_edge: !matches!(tsc.edge, EdgeType::Trailing),"),
    ("C20", CB, "            previous_marker = next_marker;\n", "            if next_marker.is_some() {\n                previous_marker = next_marker;\n            }\n"),
    ("C20", CB, "FifoEntry::WrapAroundMarker(marker) => marker.wrap_around_counter() == 0,", "FifoEntry::WrapAroundMarker(marker) => 0 == marker.wrap_around_counter(),"),
    ("C20", CB, "                    !marker.timestamp_top_bit\n", "                    marker.timestamp_top_bit == false\n"),
    ("C20", CB, "channel: u8::from(tsc.channel),", "channel: tsc.channel.into(),"),
    ("C20", CB, "let fifo = fifo.split_off(epoch_0_index);", "let kept = fifo.split_off(epoch_0_index);\n            let fifo = kept;"),
    ("C19", SC, "let current = timestamp.unwrap_or(previous.unwrap_or(0));", "let current = match timestamp { Some(t) => t, None => previous.unwrap_or(0) };"),
    ("C19", SC, "if let Some(trg_packet) = trg_packet {\n                Some(Row {", "if let Some(packet) = trg_packet {\n                let trg_packet = packet;\n                Some(Row {"),
    ("C19", SC, "pulser: Some(trg_packet.pulser_counter()),\n                    output: Some(trg_packet.output_counter()),", "output: Some(trg_packet.output_counter()),\n                    pulser: Some(trg_packet.pulser_counter()),"),
    ("C19", SC, "*cumulative += u64::from(delta);", "*cumulative = *cumulative + u64::from(delta);"),
    ("C19", VX, "if timestamp.is_some() {\n                Some(Row {", "if let Some(_) = timestamp {\n                Some(Row {"),
    ("C19", VX, "reconstructed_x: vertex.map(|v| v.x.get::<meter>()),\n                    reconstructed_y: vertex.map(|v| v.y.get::<meter>()),", "reconstructed_y: vertex.map(|v| v.y.get::<meter>()),\n                    reconstructed_x: vertex.map(|v| v.x.get::<meter>()),"),
    # ---- statements inserted or split inside / between the fragments that the wraps are cut by
    ("C19", AN, "let expected_run_number = files[0].0;\n", "let expected_run_number = files[0].0;\n    let _n_files = files.len();\n"),
    ("C19", AN, "    files.sort_unstable_by_key(|(_, initial_timestamp, _)| *initial_timestamp);\n", "    let _n_sorted = files.len();\n    files.sort_unstable_by_key(|(_, initial_timestamp, _)| *initial_timestamp);\n"),
    ("C19", SC, "let delta = current.wrapping_sub(previous.unwrap_or(current));", "let base = previous.unwrap_or(current);\n            let delta = current.wrapping_sub(base);"),
    ("C19", VX, "let delta = current.wrapping_sub(previous.unwrap_or(current));", "let base = previous.unwrap_or(current);\n            let delta = current.wrapping_sub(base);"),
    ("C20", CB, "let mut fifo = chronobox_fifo(&mut input);\n", "let mut fifo = chronobox_fifo(&mut input);\n            let _n_entries = fifo.len();\n"),
    ("C20", CB, "let fifo = fifo.split_off(epoch_0_index);\n", "let fifo = fifo.split_off(epoch_0_index);\n            let _n_kept = fifo.len();\n"),
    # ---- the calibration chains of try_from_banks (verified as loops since the continuation session)
    ("C10", LIB, "if !signal.is_empty() {\n                            wire_signals[wire_index] = Some(signal);", "if signal.len() > 0 {\n                            wire_signals[wire_index] = Some(signal);"),
    ("C10", LIB, "let signal: Vec<_> = waveform\n                            .iter()\n                            .skip(delay)\n                            // Convert to i32 to avoid overflow", "let signal: Vec<f64> = waveform\n                            .iter()\n                            .skip(delay)\n                            // Convert to i32 to avoid overflow"),
    ("C10", LIB, "if !signal.is_empty() {\n                            pad_signals[pad_index.0][pad_index.1] = Some(signal);", "if signal.len() != 0 {\n                            pad_signals[pad_index.0][pad_index.1] = Some(signal);"),
]
