#!/bin/bash
# usage: tools/seed_eval.sh <property> <dir with patch.diff, notes.md, demo *.rs> [checks...]
# Confirms a seeded change (compiles, suite passes, demo fails with / passes without) in a scratch worktree of /repo,
# then runs the given /verif checks (default: the property's) against the changed tree.  Nothing is written to /repo.
set -u
VROOT=$(cd "$(dirname "$0")/.." && pwd); PROP=$1; D=$(readlink -f $2); shift 2; CHECKS=${@:-$PROP}
W=${SEED_W:-/tmp/mutchk}; export CARGO_TARGET_DIR=${W}-target
if [ ! -d $W ]; then git -C /repo worktree add -q --detach $W HEAD || exit 3; fi
cd $W && git checkout -q --detach $(git -C /repo rev-parse HEAD) && git checkout -q -- . && git clean -qfd
CRATE=$(grep -oE "(detector|physics|analysis)/tests" $D/notes.md | head -1 | cut -d/ -f1); CRATE=${CRATE:-detector}
DEMOS=$(ls $D/*.rs 2>/dev/null)
echo "== seed $D  property=$PROP crate=$CRATE demos=$(echo $DEMOS | xargs -n1 basename 2>/dev/null | tr '\n' ' ')"
mkdir -p $W/$CRATE/tests
run_demo() { local ok=0; for f in $DEMOS; do cp $f $W/$CRATE/tests/; n=$(basename $f .rs); (cd $W && cargo test -q --offline -p $(grep -m1 '^name' $W/$CRATE/Cargo.toml | cut -d'"' -f2) --test $n >${W}-demo.log 2>&1) || ok=1; rm -f $W/$CRATE/tests/$(basename $f); done; return $ok; }
if [ -z "${SKIP_CONFIRM:-}" ] && [ -n "$DEMOS" ]; then run_demo && echo "demo without change: PASS (expected)" || { echo "demo without change: FAIL (unexpected)"; tail -5 ${W}-demo.log; }; fi
git apply $D/patch.diff || { echo "patch does not apply"; exit 3; }
if [ -z "${SKIP_CONFIRM:-}" ]; then
(cargo test -q --workspace --offline >${W}-suite.log 2>&1) && echo "suite with change: PASS (expected)" || { echo "suite with change: FAIL (unexpected)"; grep -E "FAILED|panicked|error" ${W}-suite.log | head -5; }
if [ -n "$DEMOS" ]; then run_demo && echo "demo with change: PASS (unexpected)" || echo "demo with change: FAIL (expected)"; fi
fi
cd $VROOT
for c in $CHECKS; do
  echo "-- ./check $c on the changed tree"
  VERIF_REPO=$W timeout 3000 ./check $c ${SEED_TIER:+--tier $SEED_TIER} 2>&1 | grep -E "VIOLATION|UNDECIDED|KNOWN|ok \(|fails" | cut -c1-300
  echo "   rc=${PIPESTATUS[0]}"
done
cd $W && git checkout -q -- . && git clean -qfd
