#!/bin/bash
# regression over every seeded change: apply it in the scratch worktree and run the property's quick check (SKIP_CONFIRM=1: the
# confirmation of the change itself -- suite passes, demonstration fails -- was done when it was recorded)
cd "$(dirname "$0")/.."
out=${1:-work/seed_all.log}
: > $out
for d in seeded/*/; do
  id=$(basename $d); prop=${id%%-*}
  SKIP_CONFIRM=1 tools/seed_eval.sh $prop $d >> $out 2>&1
done
echo "---- summary" >> $out
awk '/^== seed/{id=$3} /rc=/{print id, $1}' $out | sed 's#.*/seeded/##' >> $out
grep -c "rc=1" $out
