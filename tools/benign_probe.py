#!/usr/bin/env python3
"""Probe for false alarms (DESIGN.md §9.10): apply each semantics-preserving edit of tools/benign_edits.py to a scratch copy of /repo
and run the Verus side of the property's check on it (--no-kani --no-native: nothing can arbitrate or corroborate).
Expected: exit 0 (still proved) or 2 (undecided); an exit 1 is a VIOLATION on code where the property holds and is listed at the end.
usage: tools/benign_probe.py [scratch dir, default /tmp/verif-benign] [property ...]"""
import os, subprocess, sys, shutil
HERE = os.path.dirname(os.path.dirname(os.path.abspath(__file__)))
sys.path.insert(0, os.path.join(HERE, "tools"))
from benign_edits import EDITS
args = sys.argv[1:]
scratch = args[0] if args and args[0].startswith("/") else "/tmp/verif-benign"
props = [a for a in args if not a.startswith("/")]
subprocess.run(["rsync", "-a", "--delete", "--exclude", "target", "--exclude", ".git", "/repo/", scratch + "/"], check=True)
bad = []
counts = {0: 0, 1: 0, 2: 0}
for prop, rel, old, new in EDITS:
    if props and prop not in props:
        continue
    src = open(os.path.join("/repo", rel)).read()
    if old not in src:
        print(f"SKIP  [{prop}] pattern no longer in {rel}: {old[:60]!r}")
        continue
    open(os.path.join(scratch, rel), "w").write(src.replace(old, new, 1))
    r = subprocess.run([os.path.join(HERE, "check"), prop, "--no-kani", "--no-native"], env=dict(os.environ, VERIF_REPO=scratch),
                       capture_output=True, text=True)
    open(os.path.join(scratch, rel), "w").write(src)
    rc = r.returncode
    counts[rc] = counts.get(rc, 0) + 1
    print(f"rc={rc}  [{prop}] {old.splitlines()[0][:70]!r} -> {new.splitlines()[0][:70]!r}")
    if rc == 1:
        bad.append((prop, old, new))
print(f"\n{sum(counts.values())} edits: {counts.get(0, 0)} still proved, {counts.get(2, 0)} undecided, {counts.get(1, 0)} reported as violations")
shutil.rmtree(scratch, ignore_errors=True)
sys.exit(1 if bad else 0)
