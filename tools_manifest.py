#!/usr/bin/env python3
"""regenerate MANIFEST.json from vtool/registry.py + manifest_text.py (kept in sync mechanically)"""
import json, os, sys
HERE = os.path.dirname(os.path.abspath(__file__))
sys.path.insert(0, HERE)
from vtool import registry
from manifest_text import TEXT, NOT_APPLICABLE, NOTES

checks = []
for pid in sorted(registry.PROPS):
    t = TEXT[pid]
    checks.append({
        "property_id": pid,
        "quick_cmd": f"./check {pid} --tier quick",
        "thorough_cmd": f"./check {pid} --tier thorough",
        "evidence_file": f"/verif/evidence/{pid}.json",
        "replay_cmd_template": "./check --replay {path}",
        "engine": t.get("engine", "verus+kani"),
        "level_claimed": {"category": registry.PROPS[pid].get("level", "proof"), "text": t["level_text"], "design_ref": t["design_ref"]},
        "level_note": t["level_note"],
        "technique": t["technique"],
    })
m = {
    "version": 1,
    "setup_cmd": "./setup.sh",
    "hooks": {
        "guard": "cfg(kani) (set only by the Kani compiler; no hook is committed to /repo: the harness module is appended to a scratch copy of the working tree on every run)",
        "enable": "checks copy /repo's working tree to a scratch directory, append `#[cfg(kani)] #[path=\"/verif/kani/detector.rs\"] mod verif_kani;` to detector/src/lib.rs there, and run cargo kani; Verus units are cut from /repo's files by vtool/extract.py",
        "baseline_off_cmd": "cd /repo && cargo test --workspace --no-fail-fast --offline",
        "source_commits": [],
        "add_only": True,
    },
    "engines": [
        {"name": "verus-extract", "path": "/verif/vtool", "serves_properties": sorted(registry.PROPS),
         "kind_free_text": "deductive verification (Verus 0.2026.09.13 / Z3) of function text cut mechanically from /repo on every run; contracts in /verif/contracts/*.vspec"},
        {"name": "kani-harness", "path": "/verif/kani", "serves_properties": sorted(p for p, c in registry.PROPS.items() if c.get("kani_quick") or c.get("kani_thorough")),
         "kind_free_text": "Kani 0.68 / CBMC harnesses on the real compiled alpha_g_detector crate: complete (loop-free over the full input domain) or bounded stand-ins, labelled"},
        {"name": "native-replay", "path": "/verif/replay", "serves_properties": sorted(registry.PROPS),
         "kind_free_text": "native crate against the real libraries: replays counterexamples, bounded cross-checks of assumed leaves"},
    ],
    "checks": checks,
    "notes": NOTES,
    "not_applicable": [{"property_id": k, "reason": v} for k, v in sorted(NOT_APPLICABLE.items()) if k not in registry.PROPS],
}
json.dump(m, open(os.path.join(HERE, "MANIFEST.json"), "w"), indent=1)
print("MANIFEST.json written:", len(checks), "checks,", len(m["not_applicable"]), "not applicable")
