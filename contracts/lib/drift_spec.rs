// C18: drift-time lookup (physics/src/drift.rs).  Quantities are uom::si::f64 types in /repo; here they are opaque values with
// uninterpreted comparison and arithmetic, so every statement below is about the code's control flow and the terms it builds
// -- which knots are compared with what, which pair brackets t, which term is returned -- and none of it is about float values.
// (the opaque quantities are in quantity.rs)

// ---- the lookup, stated over the table as data
pub type Knot = (Time, Length, Angle);

pub open spec fn wf_table(tab: Seq<Knot>) -> bool {
    tab.len() >= 2 && forall|i: int| 0 <= i < tab.len() ==> !time_nan(#[trigger] tab[i].0)
}
// index of the first knot later than t, from i on (tab.len() if none)
pub open spec fn first_later(tab: Seq<Knot>, t: Time, i: int) -> int
    decreases tab.len() - i
{
    if i < 0 || i >= tab.len() { tab.len() as int } else if t_gt(tab[i].0, t) { i } else { first_later(tab, t, i + 1) }
}
pub open spec fn rhs_index(tab: Seq<Knot>, t: Time) -> int {
    let k = first_later(tab, t, 0);
    if k < tab.len() { k } else { tab.len() - 1 }
}
pub open spec fn fraction(l: Knot, r: Knot, t: Time) -> Ratio { time_div(time_sub(t, l.0), time_sub(r.0, l.0)) }
pub open spec fn interp_radius(l: Knot, r: Knot, t: Time) -> Length { len_add(l.1, ratio_mul_len(fraction(l, r, t), len_sub(r.1, l.1))) }
pub open spec fn interp_correction(l: Knot, r: Knot, t: Time) -> Angle {
    angle_add(l.2, angle_from_ratio(ratio_mul_angle(fraction(l, r, t), angle_sub(r.2, l.2))))
}
// the statement of the property: inside [first, last] inclusive
pub open spec fn time_in_range(tab: Seq<Knot>, t: Time) -> bool { t_le(tab[0].0, t) && t_le(t, tab[tab.len() - 1].0) }

pub open spec fn table_at(tab: Seq<Knot>, t: Time) -> Result<(Length, Angle), TryDriftLookupError> {
    if time_in_range(tab, t) {
        let k = rhs_index(tab, t);
        Ok((interp_radius(tab[k - 1], tab[k], t), interp_correction(tab[k - 1], tab[k], t)))
    } else {
        Err(TryDriftLookupError::DriftTimeOutOfRange(t))
    }
}

pub proof fn lemma_first_later(tab: Seq<Knot>, t: Time, i: int)
    requires 0 <= i <= tab.len()
    ensures
        i <= first_later(tab, t, i) <= tab.len(),
        forall|j: int| i <= j < first_later(tab, t, i) ==> !t_gt(#[trigger] tab[j].0, t),
        first_later(tab, t, i) < tab.len() ==> t_gt(tab[first_later(tab, t, i)].0, t),
    decreases tab.len() - i
{
    if i < tab.len() && !t_gt(tab[i].0, t) { lemma_first_later(tab, t, i + 1); }
}
// the pair that the code interpolates between really brackets t: knot k-1 is not later than t and knot k is later, except at
// t == last knot, where the last two knots are used
pub proof fn lemma_bracket(tab: Seq<Knot>, t: Time)
    requires wf_table(tab), !time_nan(t), time_in_range(tab, t)
    ensures
        1 <= rhs_index(tab, t) < tab.len(),
        t_le(tab[rhs_index(tab, t) - 1].0, t),
        t_gt(tab[rhs_index(tab, t)].0, t) || (rhs_index(tab, t) == tab.len() - 1 && t_le(tab[tab.len() - 1].0, t)),
{
    broadcast use axiom_time_cmp;
    lemma_first_later(tab, t, 0);
    let k = first_later(tab, t, 0);
    assert(!t_gt(tab[0].0, t));
    if k < tab.len() {
        assert(!t_gt(tab[k - 1].0, t));
    } else {
        assert(!t_gt(tab[tab.len() - 2].0, t));
        assert(!t_gt(tab[tab.len() - 1].0, t));
    }
}

// ---- z slices
pub open spec fn wf_tables(tabs: Seq<(DriftTable, Length)>) -> bool {
    tabs.len() >= 1 && forall|i: int| 0 <= i < tabs.len() ==> wf_table((#[trigger] tabs[i]).0.0@) && !len_nan(tabs[i].1)
}
pub open spec fn first_slice(tabs: Seq<(DriftTable, Length)>, za: Length, i: int) -> int
    decreases tabs.len() - i
{
    if i < 0 || i >= tabs.len() { tabs.len() as int } else if l_ge(tabs[i].1, za) { i } else { first_slice(tabs, za, i + 1) }
}
pub proof fn lemma_first_slice(tabs: Seq<(DriftTable, Length)>, za: Length, i: int)
    requires 0 <= i <= tabs.len()
    ensures
        i <= first_slice(tabs, za, i) <= tabs.len(),
        forall|j: int| i <= j < first_slice(tabs, za, i) ==> !l_ge((#[trigger] tabs[j]).1, za),
        first_slice(tabs, za, i) < tabs.len() ==> l_ge(tabs[first_slice(tabs, za, i)].1, za),
    decreases tabs.len() - i
{
    if i < tabs.len() && !l_ge(tabs[i].1, za) { lemma_first_slice(tabs, za, i + 1); }
}
// the statement of the property: |z| does not exceed the largest tabulated bound
pub open spec fn z_in_range(tabs: Seq<(DriftTable, Length)>, z: Length) -> bool { l_le(len_abs(z), tabs[tabs.len() - 1].1) }

pub open spec fn tables_at(tabs: Seq<(DriftTable, Length)>, z: Length, t: Time) -> Result<(Length, Angle), TryDriftLookupError> {
    if z_in_range(tabs, z) {
        table_at(tabs[first_slice(tabs, len_abs(z), 0)].0.0@, t)
    } else {
        Err(TryDriftLookupError::AxialPositionOutOfRange(z))
    }
}
// identical for z and -z: the lookup sees z only through |z| (that |-z| == |z| is a float fact outside this unit)
pub proof fn lemma_symmetric(tabs: Seq<(DriftTable, Length)>, z1: Length, z2: Length, t: Time)
    requires len_abs(z1) == len_abs(z2), z_in_range(tabs, z1)
    ensures tables_at(tabs, z1, t) == tables_at(tabs, z2, t)
{}

// the shipped table (lazy_static DRIFT_TABLES): its shape is checked natively on every run (c18_grid)
pub uninterp spec fn shipped_tables() -> Seq<(DriftTable, Length)>;
#[verifier::external_body]
pub fn drift_tables() -> (r: &'static DriftTables) ensures r.0@ == shipped_tables(), wf_tables(shipped_tables()) { unimplemented!() }

