// C19: the per-event closure of alpha-g-vertices; the event library is opaque here (C09 / C10 decide it)
#[verifier::external_body] pub struct BanksT { _p: u8 }
#[verifier::external_body] pub struct BarT { _p: u8 }
#[verifier::external_body] pub struct ErrT { _p: u8 }
#[verifier::external_body] #[derive(Clone, Copy)] pub struct VertexPos { _p: u8 }
#[verifier::external_body] pub struct MainEvent { _p: u8 }
pub struct ArgsT { pub verbose: bool }
pub uninterp spec fn decode_spec(run: u32, banks: BanksT) -> Result<MainEvent, ErrT>;
pub uninterp spec fn ts_of(e: MainEvent) -> u32;
pub uninterp spec fn vertex_of(e: MainEvent) -> Option<VertexPos>;
impl MainEvent {
    #[verifier::external_body]
    pub fn try_from_banks(run_number: u32, banks: BanksT) -> (r: Result<MainEvent, ErrT>) ensures r == decode_spec(run_number, banks) { unimplemented!() }
    #[verifier::external_body]
    pub fn timestamp(&self) -> (r: u32) ensures r == ts_of(*self) { unimplemented!() }
    #[verifier::external_body]
    pub fn vertex(&self) -> (r: Option<VertexPos>) ensures r == vertex_of(*self) { unimplemented!() }
}
