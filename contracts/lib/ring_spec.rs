// C13 (index layer): decomposition of the anode-wire ring into contiguous blocks.

pub open spec fn occ(s: Seq<Option<Vec<f64>>>, w: int) -> bool { s[w] is Some }
pub open spec fn all_occ(s: Seq<Option<Vec<f64>>>, a: int, b: int) -> bool { forall|w: int| a <= w < b ==> occ(s, w) }

// wires covered by a range (first, last): linear when first < last, wrapping through 255 -> 0 otherwise
pub open spec fn range_len(r: (usize, usize)) -> int { if r.0 < r.1 { r.1 - r.0 } else { 256 - r.0 + r.1 } }
pub open spec fn range_pos(r: (usize, usize), w: int) -> int { if w >= r.0 { w - r.0 } else { 256 - r.0 + w } }      // position of wire w inside the block
pub open spec fn in_range(r: (usize, usize), w: int) -> bool {
    if r.0 < r.1 { r.0 <= w < r.1 } else { (r.0 <= w < 256) || (0 <= w < r.1) }
}
// two wires are adjacent unknowns of the same induction system (|i - j| == 1 in a_matrix)
pub open spec fn adjacent_in(r: (usize, usize), w1: int, w2: int) -> bool {
    in_range(r, w1) && in_range(r, w2) && (range_pos(r, w1) - range_pos(r, w2) == 1 || range_pos(r, w2) - range_pos(r, w1) == 1)
}
pub open spec fn lin_in(r: (usize, usize), w: int) -> bool { r.0 <= w < r.1 }

// wire <-> pad column: the pad columns are shifted by 8 wires with respect to wire 0
pub proof fn lemma_wire_shift(wire: usize)
    requires wire < 256
    ensures (wire.wrapping_sub(8usize) & 0xff) == (wire + 248) % 256
{
    if wire >= 8 {
        assert(wire.wrapping_sub(8usize) == wire - 8);
        let x = (wire - 8) as usize;
        assert(x < 256 ==> (x & 0xff) == x) by (bit_vector);
    } else {
        assert(wire.wrapping_sub(8usize) == 0x1_0000_0000_0000_0000 + wire - 8);
        let x = wire.wrapping_sub(8usize);
        let y = (wire + 248) as usize;
        assert(x == 0xFFFF_FFFF_FFFF_FF00usize + y && y < 256 ==> (x & 0xff) == y) by (bit_vector);
    }
}
pub proof fn lemma_column_first(c: usize)
    requires c < 32
    ensures (((c * 8 + 8) as usize) & 0xff) == (c * 8 + 8) % 256
{
    let x = (c * 8 + 8) as usize;
    assert(x <= 256 ==> (x & 0xff) == x % 256) by (bit_vector);
}
pub open spec fn column_of(w: int) -> int { ((w + 248) % 256) / 8 }
