// C04: specification of PWB packet reassembly from a list of chunks.

pub open spec fn sorted_ids(s: Seq<Chunk>) -> bool {
    forall|i: int, j: int| 0 <= i <= j < s.len() ==> (#[trigger] s[i]).chunk_id <= (#[trigger] s[j]).chunk_id
}
pub open spec fn dense(s: Seq<Chunk>) -> bool { forall|i: int| 0 <= i < s.len() ==> (#[trigger] s[i]).chunk_id as int == i }
pub open spec fn all_wf(s: Seq<Chunk>) -> bool { forall|i: int| 0 <= i < s.len() ==> wf_chunk(#[trigger] s[i]) }
pub open spec fn eom(c: Chunk) -> bool { c.flags & 1 == 1 }

pub open spec fn ms_mixed_device(m: Multiset<Chunk>) -> bool { exists|a: Chunk, b: Chunk| m.contains(a) && m.contains(b) && a.device_id != b.device_id }
pub open spec fn ms_mixed_chip(m: Multiset<Chunk>) -> bool { exists|a: Chunk, b: Chunk| m.contains(a) && m.contains(b) && a.channel_id != b.channel_id }

// payloads in sequence order
pub open spec fn concat_payloads(s: Seq<Chunk>) -> Seq<u8>
    decreases s.len()
{
    if s.len() == 0 { Seq::empty() } else { concat_payloads(s.drop_last()) + s.last().payload@ }
}

// the decision ladder over the id-sorted sequence (what the property statement lists, in the order the
// documentation gives the error variants)
pub enum Ladder { Missing(int), NoEnd, Misplaced(int), Len(int), Decode }
pub open spec fn first_not_dense(s: Seq<Chunk>, p: int) -> bool {
    0 <= p < s.len() && s[p].chunk_id as int != p && forall|j: int| 0 <= j < p ==> (#[trigger] s[j]).chunk_id as int == j
}
pub open spec fn first_early_eom(s: Seq<Chunk>, p: int) -> bool {
    0 <= p < s.len() - 1 && eom(s[p]) && forall|j: int| 0 <= j < p ==> !eom(#[trigger] s[j])
}
pub open spec fn first_bad_len(s: Seq<Chunk>, p: int) -> bool {
    0 <= p < s.len() - 1 && s[p].payload@.len() != s[0].payload@.len() && forall|j: int| 0 <= j < p ==> (#[trigger] s[j]).payload@.len() == s[0].payload@.len()
}
pub open spec fn ladder(s: Seq<Chunk>, l: Ladder) -> bool {
    match l {
        Ladder::Missing(p) => first_not_dense(s, p),
        Ladder::NoEnd => dense(s) && !eom(s.last()),
        Ladder::Misplaced(p) => dense(s) && eom(s.last()) && first_early_eom(s, p),
        Ladder::Len(p) => dense(s) && eom(s.last()) && (forall|j: int| 0 <= j < s.len() - 1 ==> !eom(#[trigger] s[j])) && first_bad_len(s, p),
        Ladder::Decode => dense(s) && eom(s.last()) && (forall|j: int| 0 <= j < s.len() - 1 ==> !eom(#[trigger] s[j]))
            && (forall|j: int| 0 <= j < s.len() - 1 ==> (#[trigger] s[j]).payload@.len() == s[0].payload@.len()),
    }
}

// ---- pure lemmas: order independence -------------------------------------------------------------------

// two id-sorted dense arrangements of the same multiset of chunks are the same sequence: every verdict reached after the
// density check (end-of-message, payload length, decoded packet) is independent of arrival order
pub proof fn lemma_dense_unique(a: Seq<Chunk>, b: Seq<Chunk>)
    requires a.to_multiset() == b.to_multiset(), dense(a), dense(b)
    ensures a == b
{
    a.to_multiset_ensures();
    b.to_multiset_ensures();
    assert(a.len() == b.len());
    assert forall|i: int| 0 <= i < a.len() implies a[i] == b[i] by {
        assert(a.to_multiset().contains(a[i]));
        assert(b.contains(a[i]));
        let j = choose|j: int| 0 <= j < b.len() && b[j] == a[i];
        assert(b[j].chunk_id as int == j);
        assert(a[i].chunk_id as int == i);
    }
    assert(a =~= b);
}

// mixed boards / chips are properties of the multiset
pub proof fn lemma_mixed_is_multiset_property(a: Seq<Chunk>, b: Seq<Chunk>)
    requires a.to_multiset() == b.to_multiset()
    ensures ms_mixed_device(a.to_multiset()) == ms_mixed_device(b.to_multiset()),
            ms_mixed_chip(a.to_multiset()) == ms_mixed_chip(b.to_multiset()),
{
}

// density of an id-sorted arrangement is a property of the multiset (so "a chunk id is missing or duplicated" is order independent)
pub proof fn lemma_dense_is_multiset_property(a: Seq<Chunk>, b: Seq<Chunk>)
    requires a.to_multiset() == b.to_multiset(), sorted_ids(a), sorted_ids(b), dense(a)
    ensures dense(b)
{
    a.to_multiset_ensures();
    b.to_multiset_ensures();
    assert(a.len() == b.len());
    // induction on the prefix: b[i].id == i
    lemma_dense_prefix(a, b, b.len() as int);
}
pub proof fn lemma_dense_prefix(a: Seq<Chunk>, b: Seq<Chunk>, n: int)
    requires a.to_multiset() == b.to_multiset(), sorted_ids(a), sorted_ids(b), dense(a), 0 <= n <= b.len(), a.len() == b.len()
    ensures forall|i: int| 0 <= i < n ==> (#[trigger] b[i]).chunk_id as int == i
    decreases n
{
    if n > 0 {
        lemma_dense_prefix(a, b, n - 1);
        a.to_multiset_ensures();
        b.to_multiset_ensures();
        let i = n - 1;
        // b[i] occurs in a at index b[i].id, so b[i].id < len; a[i] occurs in b at some index j
        assert(b.to_multiset().contains(b[i]));
        assert(a.contains(b[i]));
        let ja = choose|j: int| 0 <= j < a.len() && a[j] == b[i];
        assert(b[i].chunk_id as int == ja);
        assert(a.to_multiset().contains(a[i]));
        assert(b.contains(a[i]));
        let jb = choose|j: int| 0 <= j < b.len() && b[j] == a[i];
        assert(b[jb].chunk_id as int == i);
        // b sorted: if jb < i then b[jb].id == jb (prefix) == i, contradiction; so jb >= i and b[i].id <= b[jb].id == i
        if jb < i { assert(b[jb].chunk_id as int == jb); }
        assert(b[i].chunk_id <= b[jb].chunk_id);
        // and b[i].id >= i: if ja < i then b[ja].id == ja == b[i].id with ja < i; then a[ja] == b[i] and a[ja] == ... count argument
        if ja < i {
            // b[ja].id == ja (prefix) and b[i].id == ja: both b[ja] and b[i] are elements with id ja; in a only a[ja] has id ja,
            // so b[ja] == a[ja] == b[i]; multiplicity of that chunk in b is >= 2 but in a it is 1
            assert(b[ja].chunk_id as int == ja);
            assert(b.to_multiset().contains(b[ja]));
            assert(a.contains(b[ja]));
            let k = choose|k: int| 0 <= k < a.len() && a[k] == b[ja];
            assert(k == ja);
            assert(b[ja] == b[i]);
            lemma_count_two(b, ja, i);
            lemma_count_one_dense(a, ja);
            assert(false);
        }
    }
}
pub proof fn lemma_count_two(s: Seq<Chunk>, i: int, j: int)
    requires 0 <= i < j < s.len(), s[i] == s[j]
    ensures s.to_multiset().count(s[i]) >= 2
    decreases s.len()
{
    // remove the last element repeatedly until j is last
    let last = s.len() - 1;
    let t = s.drop_last();
    assert(s =~= t.push(s[last]));
    t.to_multiset_ensures();
    assert(t.push(s[last]).to_multiset() =~= t.to_multiset().insert(s[last]));
    if j == last {
        assert(t.to_multiset().contains(t[i]));
    } else {
        lemma_count_two(t, i, j);
    }
}
pub proof fn lemma_count_one_dense(s: Seq<Chunk>, i: int)
    requires 0 <= i < s.len(), dense(s)
    ensures s.to_multiset().count(s[i]) == 1
    decreases s.len()
{
    let last = s.len() - 1;
    let t = s.drop_last();
    assert(s =~= t.push(s[last]));
    t.to_multiset_ensures();
    assert(t.push(s[last]).to_multiset() =~= t.to_multiset().insert(s[last]));
    assert(dense(t)) by { assert forall|k: int| 0 <= k < t.len() implies (#[trigger] t[k]).chunk_id as int == k by { assert(t[k] == s[k]); } }
    if i == last {
        // s[last] does not occur in t: every t[k] has id k != last
        if t.to_multiset().count(s[last]) > 0 {
            assert(t.to_multiset().contains(s[last]));
            assert(t.contains(s[last]));
            let k = choose|k: int| 0 <= k < t.len() && t[k] == s[last];
            assert(t[k].chunk_id as int == k);
            assert(false);
        }
    } else {
        lemma_count_one_dense(t, i);
        assert(t[i] == s[i]);
        assert(s[i] != s[last]) by { assert(s[i].chunk_id as int == i); assert(s[last].chunk_id as int == last); }
    }
}

pub open spec fn verdict(s: Seq<Chunk>, r: Result<PwbV2Packet, TryPwbPacketFromChunksError>) -> bool {
    match r {
        Err(TryPwbPacketFromChunksError::MissingChunk { position }) => ladder(s, Ladder::Missing(position as int)),
        Err(TryPwbPacketFromChunksError::MissingEndOfMessageChunk) => ladder(s, Ladder::NoEnd),
        Err(TryPwbPacketFromChunksError::MisplacedEndOfMessageChunk { position }) => ladder(s, Ladder::Misplaced(position as int)),
        Err(TryPwbPacketFromChunksError::PayloadLengthMismatch { found, expected }) =>
            exists|p: int| ladder(s, Ladder::Len(p)) && found == s[p].payload@.len() && expected == s[0].payload@.len(),
        Err(TryPwbPacketFromChunksError::BadPayload(e)) => ladder(s, Ladder::Decode) && !pwb_ok(concat_payloads(s)),
        Ok(p) => ladder(s, Ladder::Decode) && pwb_ok(concat_payloads(s)) && pwb_fields(p, concat_payloads(s)) && wf_pwb(p),
        Err(TryPwbPacketFromChunksError::DeviceIdMismatch { .. }) => false,
        Err(TryPwbPacketFromChunksError::ChannelIdMismatch { .. }) => false,
    }
}

pub proof fn lemma_perm_wf(a: Seq<Chunk>, b: Seq<Chunk>)
    requires a.to_multiset() == b.to_multiset(), all_wf(a)
    ensures all_wf(b)
{
    a.to_multiset_ensures();
    b.to_multiset_ensures();
    assert forall|i: int| 0 <= i < b.len() implies wf_chunk(#[trigger] b[i]) by {
        assert(b.to_multiset().contains(b[i]));
        assert(a.contains(b[i]));
        let j = choose|j: int| 0 <= j < a.len() && a[j] == b[i];
        assert(wf_chunk(a[j]));
    }
}
pub proof fn lemma_concat_len(s: Seq<Chunk>)
    requires all_wf(s)
    ensures concat_payloads(s).len() <= 0xFFFF * s.len()
    decreases s.len()
{
    if s.len() > 0 {
        assert(all_wf(s.drop_last())) by { assert forall|i: int| 0 <= i < s.drop_last().len() implies wf_chunk(#[trigger] s.drop_last()[i]) by { assert(s.drop_last()[i] == s[i]); } }
        lemma_concat_len(s.drop_last());
        assert(wf_chunk(s[s.len() - 1]));
    }
}

// ---- the position reported for a missing / duplicated id is a property of the multiset as well
pub proof fn lemma_count_one(s: Seq<Chunk>, i: int)
    requires 0 <= i < s.len(), forall|k: int| 0 <= k < s.len() && k != i ==> s[k] != s[i]
    ensures s.to_multiset().count(s[i]) == 1
    decreases s.len()
{
    let last = s.len() - 1;
    let t = s.drop_last();
    assert(s =~= t.push(s[last]));
    t.to_multiset_ensures();
    assert(t.push(s[last]).to_multiset() =~= t.to_multiset().insert(s[last]));
    if i == last {
        if t.to_multiset().count(s[last]) > 0 {
            assert(t.to_multiset().contains(s[last]));
            assert(t.contains(s[last]));
            let k = choose|k: int| 0 <= k < t.len() && t[k] == s[last];
            assert(s[k] == s[i]);
            assert(false);
        }
    } else {
        assert forall|k: int| 0 <= k < t.len() && k != i implies t[k] != t[i] by { assert(t[k] == s[k] && t[i] == s[i]); }
        lemma_count_one(t, i);
        assert(t[i] == s[i]);
        assert(s[last] != s[i]);
    }
}
proof fn lemma_position_le(a: Seq<Chunk>, b: Seq<Chunk>, p: int, q: int)
    requires a.to_multiset() == b.to_multiset(), sorted_ids(a), sorted_ids(b), first_not_dense(a, p), first_not_dense(b, q)
    ensures p >= q
{
    a.to_multiset_ensures();
    b.to_multiset_ensures();
    if p < q {
        // b[j].id == j for all j <= p
        assert(b[p].chunk_id as int == p);
        if a[p].chunk_id as int > p {
            // no element of a has id p, but b[p] has
            assert(b.to_multiset().contains(b[p]));
            assert(a.contains(b[p]));
            let k = choose|k: int| 0 <= k < a.len() && a[k] == b[p];
            if k < p { assert(a[k].chunk_id as int == k); } else { assert(a[p].chunk_id <= a[k].chunk_id); }
            assert(false);
        } else {
            // a[p].id < p: the id d = a[p].id occurs at two positions of a (d and p), but only at position d of b
            let d = a[p].chunk_id as int;
            assert(d < p);
            assert(a[d].chunk_id as int == d);
            let (x, y) = (a[d], a[p]);
            assert(a.to_multiset().contains(x) && a.to_multiset().contains(y));
            assert(b.contains(x) && b.contains(y));
            let k1 = choose|k: int| 0 <= k < b.len() && b[k] == x;
            let k2 = choose|k: int| 0 <= k < b.len() && b[k] == y;
            assert forall|k: int| 0 <= k < b.len() && (#[trigger] b[k]).chunk_id as int == d implies k == d by {
                if k <= p { assert(b[k].chunk_id as int == k); } else { assert(b[p].chunk_id <= b[k].chunk_id); }
            }
            assert(k1 == d && k2 == d);
            assert(x == y);
            lemma_count_two(a, d, p);
            assert forall|k: int| 0 <= k < b.len() && k != d implies b[k] != b[d] by {
                if b[k] == b[d] { assert(b[k].chunk_id as int == d); }
            }
            lemma_count_one(b, d);
            assert(false);
        }
    }
}
// two id-sorted arrangements of the same multiset report the same first missing-or-duplicated position
pub proof fn lemma_position_unique(a: Seq<Chunk>, b: Seq<Chunk>, p: int, q: int)
    requires a.to_multiset() == b.to_multiset(), sorted_ids(a), sorted_ids(b), first_not_dense(a, p), first_not_dense(b, q)
    ensures p == q
{
    lemma_position_le(a, b, p, q);
    lemma_position_le(b, a, q, p);
}

// ---- C04, first sentence: the result is the same for every ordering of the chunk set.
// `reassembly_post` is the conjunction of the postconditions proved for the real PwbV2Packet::try_from(Vec<Chunk>) in this unit.
pub open spec fn reassembly_post(chunks: Seq<Chunk>, r: Result<PwbV2Packet, TryPwbPacketFromChunksError>) -> bool {
    &&& chunks.len() == 0 ==> (r matches Err(TryPwbPacketFromChunksError::MissingChunk { position }) && position == 0)
    &&& (r matches Err(TryPwbPacketFromChunksError::DeviceIdMismatch { .. })) == (chunks.len() > 0 && ms_mixed_device(chunks.to_multiset()))
    &&& (r matches Err(TryPwbPacketFromChunksError::ChannelIdMismatch { .. })) == (chunks.len() > 0 && !ms_mixed_device(chunks.to_multiset()) && ms_mixed_chip(chunks.to_multiset()))
    &&& chunks.len() > 0 && !ms_mixed_device(chunks.to_multiset()) && !ms_mixed_chip(chunks.to_multiset()) ==>
            exists|s: Seq<Chunk>| #[trigger] sorted_ids(s) && s.to_multiset() == chunks.to_multiset() && verdict(s, r)
}
// "same result": equal error variant with equal position / lengths, or success with packets that are both the decode of one payload
pub open spec fn same_result(r1: Result<PwbV2Packet, TryPwbPacketFromChunksError>, r2: Result<PwbV2Packet, TryPwbPacketFromChunksError>) -> bool {
    match (r1, r2) {
        (Ok(p1), Ok(p2)) => exists|bytes: Seq<u8>| #[trigger] pwb_ok(bytes) && pwb_fields(p1, bytes) && pwb_fields(p2, bytes),
        (Err(TryPwbPacketFromChunksError::DeviceIdMismatch { .. }), Err(TryPwbPacketFromChunksError::DeviceIdMismatch { .. })) => true,
        (Err(TryPwbPacketFromChunksError::ChannelIdMismatch { .. }), Err(TryPwbPacketFromChunksError::ChannelIdMismatch { .. })) => true,
        (Err(TryPwbPacketFromChunksError::MissingChunk { position: a }), Err(TryPwbPacketFromChunksError::MissingChunk { position: b })) => a == b,
        (Err(TryPwbPacketFromChunksError::MissingEndOfMessageChunk), Err(TryPwbPacketFromChunksError::MissingEndOfMessageChunk)) => true,
        (Err(TryPwbPacketFromChunksError::MisplacedEndOfMessageChunk { position: a }), Err(TryPwbPacketFromChunksError::MisplacedEndOfMessageChunk { position: b })) => a == b,
        (Err(TryPwbPacketFromChunksError::PayloadLengthMismatch { found: f1, expected: e1 }), Err(TryPwbPacketFromChunksError::PayloadLengthMismatch { found: f2, expected: e2 })) => f1 == f2 && e1 == e2,
        (Err(TryPwbPacketFromChunksError::BadPayload(_)), Err(TryPwbPacketFromChunksError::BadPayload(_))) => true,
        _ => false,
    }
}
pub proof fn lemma_order_independent(a: Seq<Chunk>, b: Seq<Chunk>, ra: Result<PwbV2Packet, TryPwbPacketFromChunksError>, rb: Result<PwbV2Packet, TryPwbPacketFromChunksError>)
    requires a.to_multiset() == b.to_multiset(), reassembly_post(a, ra), reassembly_post(b, rb)
    ensures same_result(ra, rb)
{
    a.to_multiset_ensures();
    b.to_multiset_ensures();
    assert(a.len() == b.len());
    let m = a.to_multiset();
    if a.len() == 0 {
    } else if ms_mixed_device(m) {
    } else if ms_mixed_chip(m) {
    } else {
        let sa = choose|s: Seq<Chunk>| #[trigger] sorted_ids(s) && s.to_multiset() == m && verdict(s, ra);
        let sb = choose|s: Seq<Chunk>| #[trigger] sorted_ids(s) && s.to_multiset() == m && verdict(s, rb);
        sa.to_multiset_ensures();
        sb.to_multiset_ensures();
        assert(sa.len() == sb.len() && sa.len() > 0);
        if dense(sa) {
            lemma_dense_is_multiset_property(sa, sb);
            lemma_dense_unique(sa, sb);
            assert(sa == sb);
            // the same sequence: every later rung of the ladder is a function of it
            match (ra, rb) {
                (Err(TryPwbPacketFromChunksError::MisplacedEndOfMessageChunk { position: p1 }), Err(TryPwbPacketFromChunksError::MisplacedEndOfMessageChunk { position: p2 })) => {
                    if (p1 as int) < (p2 as int) { assert(!eom(sa[p1 as int])); } else if (p2 as int) < (p1 as int) { assert(!eom(sa[p2 as int])); }
                }
                (Err(TryPwbPacketFromChunksError::PayloadLengthMismatch { found: f1, expected: e1 }), Err(TryPwbPacketFromChunksError::PayloadLengthMismatch { found: f2, expected: e2 })) => {
                    let p1 = choose|p: int| ladder(sa, Ladder::Len(p)) && f1 == sa[p].payload@.len() && e1 == sa[0].payload@.len();
                    let p2 = choose|p: int| ladder(sa, Ladder::Len(p)) && f2 == sa[p].payload@.len() && e2 == sa[0].payload@.len();
                    if p1 < p2 { assert(sa[p1].payload@.len() == sa[0].payload@.len()); } else if p2 < p1 { assert(sa[p2].payload@.len() == sa[0].payload@.len()); }
                }
                (Ok(p1), Ok(p2)) => {
                    assert(pwb_ok(concat_payloads(sa)) && pwb_fields(p1, concat_payloads(sa)) && pwb_fields(p2, concat_payloads(sa)));
                }
                _ => {}
            }
        } else {
            if dense(sb) { lemma_dense_is_multiset_property(sb, sa); }
            // both arrangements are not dense: both results are MissingChunk at the first bad position
            let pa = choose|p: int| first_not_dense_at(sa, p);
            lemma_first_not_dense_exists(sa);
            lemma_first_not_dense_exists(sb);
            match (ra, rb) {
                (Err(TryPwbPacketFromChunksError::MissingChunk { position: p1 }), Err(TryPwbPacketFromChunksError::MissingChunk { position: p2 })) => {
                    lemma_position_unique(sa, sb, p1 as int, p2 as int);
                }
                _ => {}
            }
        }
    }
}
pub open spec fn first_not_dense_at(s: Seq<Chunk>, p: int) -> bool { first_not_dense(s, p) }
// a sequence that is not dense has a first offending position, so every rung below `Missing` is excluded for it
pub proof fn lemma_first_not_dense_exists(s: Seq<Chunk>)
    requires !dense(s)
    ensures exists|p: int| first_not_dense(s, p)
{
    lemma_first_not_dense_upto(s, s.len() as int);
}
proof fn lemma_first_not_dense_upto(s: Seq<Chunk>, n: int)
    requires 0 <= n <= s.len(), exists|i: int| 0 <= i < n && (#[trigger] s[i]).chunk_id as int != i
    ensures exists|p: int| first_not_dense(s, p)
    decreases n
{
    if exists|i: int| 0 <= i < n - 1 && (#[trigger] s[i]).chunk_id as int != i {
        lemma_first_not_dense_upto(s, n - 1);
    } else {
        assert(s[n - 1].chunk_id as int != n - 1);
        assert(first_not_dense(s, n - 1));
    }
}
