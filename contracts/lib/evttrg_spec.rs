// C10: the TRG arm of MainEvent::try_from_banks and the final `trigger_timestamp.ok_or(MissingTrgBank)?` (physics/src/lib.rs).
// Error payloads of the other arms are opaque placeholders.
#[verifier::external_body] #[derive(Debug)] pub struct ParseMainEventBankNameError { _p: u8 }
#[verifier::external_body] #[derive(Debug)] pub struct TryAdcPacketFromSliceError { _p: u8 }
#[verifier::external_body] #[derive(Debug)] pub struct A16BoardId { _p: u8 }
#[verifier::external_body] #[derive(Debug)] pub struct A16ChannelId { _p: u8 }
#[verifier::external_body] #[derive(Debug)] pub struct Adc32BankName { _p: u8 }
#[verifier::external_body] #[derive(Debug)] pub struct TryChunkFromSliceError { _p: u8 }
#[verifier::external_body] #[derive(Debug)] pub struct PwbBoardId { _p: u8 }
#[verifier::external_body] #[derive(Debug)] pub struct TryPwbPacketFromChunksError { _p: u8 }
#[verifier::external_body] #[derive(Debug)] pub struct TpcPadPosition { _p: u8 }
#[verifier::external_body] #[derive(Debug)] pub struct MapTpcWirePositionError { _p: u8 }
#[verifier::external_body] #[derive(Debug)] pub struct MapTpcPadPositionError { _p: u8 }
#[verifier::external_body] #[derive(Debug)] pub struct MapWireBaselineError { _p: u8 }
#[verifier::external_body] #[derive(Debug)] pub struct MapWireDelayError { _p: u8 }
#[verifier::external_body] #[derive(Debug)] pub struct MapWireGainError { _p: u8 }
#[verifier::external_body] #[derive(Debug)] pub struct MapPadBaselineError { _p: u8 }
#[verifier::external_body] #[derive(Debug)] pub struct MapPadDelayError { _p: u8 }
#[verifier::external_body] #[derive(Debug)] pub struct MapPadGainError { _p: u8 }

// the reflexive conversion used by `?` when no error conversion takes place (core: `impl<T> From<T> for T { fn from(t) -> T { t } }`)
pub assume_specification<T> [ <T as core::convert::From<T>>::from ] (t: T) -> (r: T)
    ensures r == t;
