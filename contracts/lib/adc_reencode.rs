// ---- re-encoding (C02): the accessor values of an accepted packet reproduce its bytes, apart from the two unused footer bits
pub open spec fn b16(v: int) -> Seq<u8> { seq![((v / 256) % 256) as u8, (v % 256) as u8] }                       // big endian, v taken modulo 2^16
pub open spec fn b32(v: int) -> Seq<u8> { b16((v / 65536) % 65536) + b16(v % 65536) }
pub open spec fn u16_of(v: int) -> int { if v < 0 { v + 65536 } else { v } }
pub open spec fn u32_of(v: int) -> int { if v < 0 { v + 0x1_0000_0000 } else { v } }
pub open spec fn enc_wave(w: Seq<i16>) -> Seq<u8>
    decreases w.len()
{
    if w.len() == 0 { Seq::empty() } else { enc_wave(w.drop_last()) + b16(u16_of(w.last() as int)) }
}
pub open spec fn chan_byte(c: ChannelId) -> int { match c { ChannelId::A16(x) => x.0 as int, ChannelId::A32(x) => x.0 as int + 128 } }
pub open spec fn footer_of(p: AdcV3Packet) -> int { p.keep_last as int + (if p.keep_bit { 4096int } else { 0 }) + (if p.suppression_enabled { 8192int } else { 0 }) }
pub open spec fn encode_adc(p: AdcV3Packet) -> Seq<u8> {
    let head = seq![1u8, 3u8] + b16(p.accepted_trigger as int) + seq![p.module_id.0, chan_byte(p.channel_id) as u8] + b16(p.requested_samples as int)
        + b32((p.event_timestamp as int) % 0x1_0000_0000);
    let tail = b16(footer_of(p)) + b16(u16_of(p.suppression_baseline as int));
    if p.board_id is None { head + tail } else {
        head + seq![0u8, 0u8] + p.board_id->Some_0.mac_address@ + b32((p.event_timestamp as int) / 0x1_0000_0000)
            + b32(u32_of(p.trigger_offset->Some_0 as int)) + b32(p.build_timestamp->Some_0 as int) + enc_wave(p.waveform@) + tail
    }
}
// the input with footer bits 14 and 15 cleared (they are not represented in the decoded packet)
pub open spec fn clear_unused(s: Seq<u8>) -> Seq<u8> { s.update(s.len() - 4, (s[s.len() - 4] % 64) as u8) }

proof fn lemma_b16(s: Seq<u8>, o: int)
    requires 0 <= o, o + 2 <= s.len()
    ensures b16(be16(s, o)) == s.subrange(o, o + 2)
{
    assert(b16(be16(s, o)) =~= s.subrange(o, o + 2));
}
proof fn lemma_b16_signed(s: Seq<u8>, o: int)
    requires 0 <= o, o + 2 <= s.len()
    ensures b16(u16_of(bei16(s, o))) == s.subrange(o, o + 2)
{
    assert(u16_of(bei16(s, o)) == be16(s, o));
    lemma_b16(s, o);
}
proof fn lemma_b32(s: Seq<u8>, o: int)
    requires 0 <= o, o + 4 <= s.len()
    ensures b32(be32(s, o)) == s.subrange(o, o + 4)
{
    lemma_b16(s, o);
    lemma_b16(s, o + 2);
    assert((be32(s, o) / 65536) % 65536 == be16(s, o));
    assert(be32(s, o) % 65536 == be16(s, o + 2));
    assert(s.subrange(o, o + 4) =~= s.subrange(o, o + 2) + s.subrange(o + 2, o + 4));
}
proof fn lemma_enc_wave(s: Seq<u8>, w: Seq<i16>, n: int)
    requires 0 <= n == w.len(), 32 + 2 * n <= s.len(), forall|i: int| 0 <= i < n ==> w[i] as int == bei16(s, 32 + 2 * i)
    ensures enc_wave(w) == s.subrange(32, 32 + 2 * n)
    decreases n
{
    if n == 0 {
        assert(s.subrange(32, 32) =~= Seq::<u8>::empty());
    } else {
        lemma_enc_wave(s, w.drop_last(), n - 1);
        lemma_b16_signed(s, 32 + 2 * (n - 1));
        assert(s.subrange(32, 32 + 2 * n) =~= s.subrange(32, 32 + 2 * (n - 1)) + s.subrange(32 + 2 * (n - 1), 32 + 2 * n));
    }
}
proof fn lemma_adc_footer(p: AdcV3Packet, s: Seq<u8>)
    requires s.len() >= 16, p.keep_last as int == keep_last(s), p.keep_bit == keep_bit(s), p.suppression_enabled == supp(s)
    ensures b16(footer_of(p)) == seq![(s[s.len() - 4] % 64) as u8, s[s.len() - 3]]
{
    // every step is spelled out: this lemma used to sit at the edge of its resource limit and flipped with the order of
    // unrelated definitions in the unit
    let n = s.len() as int;
    let f = footer(s);
    let hi = s[n - 4] as int;
    let lo = s[n - 3] as int;
    assert(be16(s, n - 4) == hi * 256 + lo);
    assert(f as int == hi * 256 + lo);
    assert((f & 0xFFF) as int + (if (f >> 12) & 1 == 1 { 4096int } else { 0 }) + (if (f >> 13) & 1 == 1 { 8192int } else { 0 }) == (f % 16384) as int) by (bit_vector);
    assert(footer_of(p) == (f as int) % 16384);
    let v = (hi % 64) * 256 + lo;
    assert((hi * 256 + lo) % 16384 == v) by (nonlinear_arith) requires 0 <= hi < 256, 0 <= lo < 256, v == (hi % 64) * 256 + lo;
    assert((v / 256) % 256 == hi % 64 && v % 256 == lo) by (nonlinear_arith) requires 0 <= hi < 256, 0 <= lo < 256, v == (hi % 64) * 256 + lo;
    assert(footer_of(p) == v);
    assert(b16(v)[0] == ((v / 256) % 256) as u8 && b16(v)[1] == (v % 256) as u8 && b16(v).len() == 2);
    assert(b16(footer_of(p)) =~= seq![(s[n - 4] % 64) as u8, s[n - 3]]);
}
proof fn lemma_adc_head(p: AdcV3Packet, s: Seq<u8>)
    requires s.len() >= 16, s[0] == 1, s[1] == 3, p.accepted_trigger as int == be16(s, 2), p.module_id.0 == s[4], chan_byte(p.channel_id) == s[5],
             p.requested_samples as int == be16(s, 6), (p.event_timestamp as int) % 0x1_0000_0000 == be32(s, 8)
    ensures seq![1u8, 3u8] + b16(p.accepted_trigger as int) + seq![p.module_id.0, chan_byte(p.channel_id) as u8] + b16(p.requested_samples as int)
        + b32((p.event_timestamp as int) % 0x1_0000_0000) == s.subrange(0, 12)
{
    lemma_b16(s, 2); lemma_b16(s, 6); lemma_b32(s, 8);
    assert(seq![1u8, 3u8] + s.subrange(2, 4) + seq![s[4], s[5]] + s.subrange(6, 8) + s.subrange(8, 12) =~= s.subrange(0, 12));
}
// the two shapes separately, each from the few facts it needs (adc_ok as a whole drags sum64/keep_last arithmetic into the query:
// the single lemma used to sit at the edge of its resource limit and flipped with the order of unrelated definitions)
proof fn lemma_adc_reencode_short(p: AdcV3Packet, s: Seq<u8>)
    requires s.len() == 16, s[0] == 1, s[1] == 3, adc_fields(p, s)
    ensures encode_adc(p) == clear_unused(s)
{
    let n = s.len() as int;
    let t = clear_unused(s);
    lemma_adc_footer(p, s);
    lemma_b16_signed(s, n - 2);
    let tail = b16(footer_of(p)) + b16(u16_of(p.suppression_baseline as int));
    assert(tail =~= t.subrange(n - 4, n));
    assert(chan_byte(p.channel_id) == s[5]);
    assert((p.event_timestamp as int) % 0x1_0000_0000 == be32(s, 8));
    lemma_adc_head(p, s);
    assert(t =~= s.subrange(0, 12) + t.subrange(12, 16));
}
#[verifier::rlimit(60)]
proof fn lemma_adc_reencode_long(p: AdcV3Packet, s: Seq<u8>)
    requires s.len() >= 36, (s.len() - 36) % 2 == 0, s[0] == 1, s[1] == 3, s.subrange(12, 14) == seq![0u8, 0u8], adc_fields(p, s)
    ensures encode_adc(p) == clear_unused(s)
{
    let n = s.len() as int;
    let t = clear_unused(s);
    lemma_adc_footer(p, s);
    lemma_b16_signed(s, n - 2);
    let tail = b16(footer_of(p)) + b16(u16_of(p.suppression_baseline as int));
    assert(tail =~= t.subrange(n - 4, n));
    assert(chan_byte(p.channel_id) == s[5]);
    assert((p.event_timestamp as int) % 0x1_0000_0000 == be32(s, 8));
    assert((p.event_timestamp as int) / 0x1_0000_0000 == be32(s, 20));
    lemma_adc_head(p, s);
    lemma_b32(s, 20); lemma_b32(s, 28);
    assert(u32_of(bei32(s, 24)) == be32(s, 24));
    lemma_b32(s, 24);
    let w = p.waveform@;
    lemma_enc_wave(s, w, w.len() as int);
    assert(32 + 2 * w.len() == n - 4);
    assert(t =~= s.subrange(0, 12) + seq![0u8, 0u8] + s.subrange(14, 20) + s.subrange(20, 24) + s.subrange(24, 28) + s.subrange(28, 32)
        + s.subrange(32, n - 4) + t.subrange(n - 4, n));
}
pub proof fn lemma_adc_reencode(p: AdcV3Packet, s: Seq<u8>)
    requires adc_ok(s), adc_fields(p, s)
    ensures encode_adc(p) == clear_unused(s)
{
    if s.len() == 16 { lemma_adc_reencode_short(p, s); } else { lemma_adc_reencode_long(p, s); }
}
