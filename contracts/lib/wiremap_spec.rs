// C08 (run-number selectors, wire side).  The preamp HashMap is an opaque table (A-MAPS).
#[verifier::external_body]
pub struct PreampMap { _p: u8 }
pub uninterp spec fn preamp_map_id(m: &PreampMap) -> int;
#[verifier::external_body]
pub fn preamps_2941() -> (r: &'static PreampMap) ensures preamp_map_id(r) == 2941 { unimplemented!() }
pub uninterp spec fn preamp_table(id: int, b: BoardId) -> Option<(usize, usize)>;

// documented channel permutation of the Alpha16 32-channel connector (INV_CHANNELS_2724)
pub open spec fn inv_channel(i: int) -> int {
    if i == 0 { 4 } else if i == 1 { 2 } else if i == 2 { 0 } else if i == 3 { 6 } else if i < 8 { 2 * i }
    else if i < 16 { 2 * (i - 8) + 1 } else if i < 24 { 16 + 2 * (i - 16) } else { 17 + 2 * (i - 24) }
}
pub open spec fn wire_index(p: (usize, usize), mapped: int) -> int {
    if mapped <= 15 { p.0 * 16 + mapped } else { p.1 * 16 + (mapped - 16) }
}
pub open spec fn wire_lookup(run: u32, b: BoardId, ch: Adc32ChannelId) -> Result<TpcWirePosition, MapTpcWirePositionError> {
    if !(run == 0xFFFF_FFFF || run >= 2941) { Err(MapTpcWirePositionError::MissingPreampMap { run_number: run }) }
    else { match preamp_table(2941, b) {
        None => Err(MapTpcWirePositionError::BoardIdNotFound { board_id: b, run_number: run }),
        Some(p) => Ok(TpcWirePosition(wire_index(p, inv_channel(ch.0 as int)) as usize)),
    } }
}

// `p * 16` respelled as `p << 4` is the same index (the solver does not relate them by itself)
pub broadcast proof fn lemma_spell_shl4(p: usize) requires p < 0x1000_0000 ensures #[trigger] (p << 4usize) == p * 16 {
    assert(p < 0x1000_0000 ==> (p << 4usize) == p * 16) by (bit_vector);
}

// the reflexive conversion used by `?` when no error conversion takes place (core: `impl<T> From<T> for T { fn from(t) -> T { t } }`)
pub assume_specification<T> [ <T as core::convert::From<T>>::from ] (t: T) -> (r: T)
    ensures r == t;
