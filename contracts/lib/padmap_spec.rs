// C08 (run-number selectors): which map a run number selects, and the index arithmetic from map entries to detector elements.
// The lazy_static HashMaps are opaque tables (A-MAPS): `*_table` are uninterpreted functions of (table id, key); their contents and
// bijectivity are enumerated natively (check c08_tables), not proved.

#[verifier::external_body]
pub struct PwbMap { _p: u8 }
pub uninterp spec fn pwb_map_id(m: &PwbMap) -> int;
#[verifier::external_body]
pub fn pwb_map_4418() -> (r: &'static PwbMap) ensures pwb_map_id(r) == 4418 { unimplemented!() }
#[verifier::external_body]
pub fn pwb_map_10418() -> (r: &'static PwbMap) ensures pwb_map_id(r) == 10418 { unimplemented!() }

pub uninterp spec fn pwb_table(id: int, b: BoardId) -> Option<TpcPwbPosition>;
pub uninterp spec fn pad_table(a: AfterId, c: PadChannelId) -> PwbPadPosition;

pub open spec fn wf_pwb_pos(p: TpcPwbPosition) -> bool { p.column.0 < 8 && p.row.0 < 8 }
pub open spec fn wf_pad_pos(p: PwbPadPosition) -> bool { p.column.0 < 4 && p.row.0 < 72 }

// the map a run number selects for the PadWing boards: simulation (u32::MAX) and 4418..10418 use the 4418 map
pub open spec fn pwb_map_of_run(run: u32) -> Option<int> {
    if run == 0xFFFF_FFFF { Some(4418) } else if run >= 10418 { Some(10418) } else if run >= 4418 { Some(4418) } else { None }
}
pub open spec fn pwb_lookup(run: u32, b: BoardId) -> Result<TpcPwbPosition, MapTpcPwbPositionError> {
    match pwb_map_of_run(run) {
        None => Err(MapTpcPwbPositionError::MissingMap { run_number: run }),
        Some(id) => match pwb_table(id, b) {
            Some(p) => Ok(p),
            None => Err(MapTpcPwbPositionError::BoardIdNotFound { run_number: run, board_id: b }),
        },
    }
}
