// C19: the part of alpha_g_analysis::sort_run_files that decides on (run number, initial timestamp, path) triples: same run number
// everywhere, order by initial timestamp, no two files with the same initial timestamp.  Reading the 12 header bytes of each file
// (std::fs, lz4) comes before it and is not under contract.  Paths are opaque.
use vstd::seq_lib::*;
#[verifier::external_body] #[derive(Debug)] pub struct PathT { _p: u8 }          // the caller's `P: AsRef<Path>`
#[verifier::external_body] #[derive(Debug)] pub struct PathRef { _p: u8 }        // std::path::Path
#[verifier::external_body] #[derive(Debug)] pub struct PathBuf { _p: u8 }
#[verifier::external_body] #[derive(Debug)] pub struct IoErrorT { _p: u8 }
#[verifier::external_body] #[derive(Debug)] pub struct TryExtensionFromOsStrError { _p: u8 }
#[verifier::external_body] #[derive(Debug)] pub struct TryFileViewFromBytesError { _p: u8 }
pub uninterp spec fn owned(p: PathT) -> PathBuf;
impl PathT {
    #[verifier::external_body]
    pub fn as_ref(&self) -> (r: &PathRef) ensures r.to_owned_spec() == owned(*self) { unimplemented!() }
}
impl PathRef {
    pub uninterp spec fn to_owned_spec(&self) -> PathBuf;
    #[verifier::external_body]
    pub fn to_owned(&self) -> (r: PathBuf) ensures r == self.to_owned_spec() { unimplemented!() }
}

pub type Entry = (u32, u32, PathT);
pub open spec fn same_run(f: Seq<Entry>) -> bool { forall|i: int| 0 <= i < f.len() ==> (#[trigger] f[i]).0 == f[0].0 }
pub open spec fn sorted_by_ts(f: Seq<Entry>) -> bool { forall|i: int, j: int| 0 <= i <= j < f.len() ==> (#[trigger] f[i]).1 <= (#[trigger] f[j]).1 }
pub open spec fn distinct_ts(f: Seq<Entry>) -> bool { forall|i: int, j: int| 0 <= i < j < f.len() ==> (#[trigger] f[i]).1 != (#[trigger] f[j]).1 }
pub open spec fn strictly_sorted(f: Seq<Entry>) -> bool { forall|i: int, j: int| 0 <= i < j < f.len() ==> (#[trigger] f[i]).1 < (#[trigger] f[j]).1 }

// the first n neighbouring pairs have different timestamps (two bound variables: `f[i + 1]` under a trigger on `f[i]` would loop)
pub open spec fn neighbours_differ(f: Seq<Entry>, n: int) -> bool {
    forall|i: int, j: int| 0 <= i < n && j == i + 1 && j < f.len() ==> (#[trigger] f[i]).1 != (#[trigger] f[j]).1
}
// a duplicate anywhere in a sorted list shows up between neighbours
pub proof fn lemma_adjacent(f: Seq<Entry>)
    requires sorted_by_ts(f), neighbours_differ(f, f.len() as int)
    ensures strictly_sorted(f)
{
    assert forall|i: int, j: int| 0 <= i < j < f.len() implies (#[trigger] f[i]).1 < (#[trigger] f[j]).1 by {
        let k = i + 1;
        assert(f[i].1 <= f[k].1);
        assert(f[i].1 != f[k].1);
        assert(f[k].1 <= f[j].1);
    }
}
// equal timestamps are a property of the multiset of entries, whatever the order
pub proof fn lemma_distinct_perm(a: Seq<Entry>, b: Seq<Entry>)
    requires a.to_multiset() == b.to_multiset(), !distinct_ts(b)
    ensures !distinct_ts(a)
{
    broadcast use group_to_multiset_ensures, group_multiset_axioms;
    let (i, j) = choose|i: int, j: int| 0 <= i < j < b.len() && b[i].1 == b[j].1;
    if distinct_ts(a) {
        // b[i] and b[j] both occur in a; if they are the same entry it occurs twice in b, hence twice in a
        assert(b.contains(b[i]) && b.contains(b[j]));
        assert(a.to_multiset().count(b[i]) >= 1 && a.to_multiset().count(b[j]) >= 1);
        assert(a.contains(b[i]) && a.contains(b[j]));
        let x = choose|x: int| 0 <= x < a.len() && a[x] == b[i];
        let y = choose|y: int| 0 <= y < a.len() && a[y] == b[j];
        if x == y {
            // same entry e at two positions of b: count >= 2 in b, so in a; a has it at two positions with equal timestamps
            let e = b[i];
            assert(b[j] == e);
            lemma_count_two(b, i, j);
            assert(a.to_multiset().count(e) >= 2);
            lemma_two_positions(a, e);
        } else {
            assert(a[x].1 == a[y].1);
            if x < y { assert(a[x].1 != a[y].1); } else { assert(a[y].1 != a[x].1); }
        }
    }
}
pub proof fn lemma_count_two(s: Seq<Entry>, i: int, j: int)
    requires 0 <= i < j < s.len(), s[i] == s[j]
    ensures s.to_multiset().count(s[i]) >= 2
    decreases s.len()
{
    broadcast use group_to_multiset_ensures, group_multiset_axioms;
    let t = s.drop_last();
    assert(s =~= t.push(s.last()));
    if j == s.len() - 1 {
        assert(t.contains(s[i]));
        assert(t.to_multiset().count(s[i]) >= 1);
    } else {
        lemma_count_two(t, i, j);
    }
}
pub proof fn lemma_two_positions(s: Seq<Entry>, e: Entry)
    requires s.to_multiset().count(e) >= 2
    ensures exists|x: int, y: int| 0 <= x < y < s.len() && s[x] == e && s[y] == e
    decreases s.len()
{
    broadcast use group_to_multiset_ensures, group_multiset_axioms;
    if s.len() == 0 {
        assert(s.to_multiset().len() == 0);
    } else {
        let t = s.drop_last();
        assert(s =~= t.push(s.last()));
        if s.last() == e {
            assert(t.to_multiset().count(e) >= 1);
            assert(t.contains(e));
            let x = choose|x: int| 0 <= x < t.len() && t[x] == e;
            assert(s[x] == e && s[s.len() - 1] == e);
        } else {
            lemma_two_positions(t, e);
            let (x, y) = choose|x: int, y: int| 0 <= x < y < t.len() && t[x] == e && t[y] == e;
            assert(s[x] == e && s[y] == e);
        }
    }
}

// the paths of the entries, in order: what sort_run_files hands to the binaries
pub open spec fn paths_of(f: Seq<Entry>) -> Seq<PathT> { f.map_values(|e: Entry| e.2) }
