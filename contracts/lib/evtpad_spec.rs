// C10: the pad side of MainEvent::try_from_banks (physics/src/lib.rs): what happens to one sent pad channel of a reassembled
// PWB packet.  Error payloads of the other arms (wires, TRG, bank names) are opaque placeholders.
pub mod padwing { pub use super::BoardId; pub use super::ChannelId; }

#[verifier::external_body] #[derive(Debug)] pub struct ParseMainEventBankNameError { _p: u8 }
#[verifier::external_body] #[derive(Debug)] pub struct TryAdcPacketFromSliceError { _p: u8 }
#[verifier::external_body] #[derive(Debug)] pub struct A16BoardId { _p: u8 }
#[verifier::external_body] #[derive(Debug)] pub struct A16ChannelId { _p: u8 }
#[verifier::external_body] #[derive(Debug)] pub struct Adc32BankName { _p: u8 }
#[verifier::external_body] #[derive(Debug)] pub struct TryChunkFromSliceError { _p: u8 }
#[verifier::external_body] #[derive(Debug)] pub struct TryPwbPacketFromChunksError { _p: u8 }
#[verifier::external_body] #[derive(Debug)] pub struct TryTrgPacketFromSliceError { _p: u8 }
#[verifier::external_body] #[derive(Debug)] pub struct MapTpcWirePositionError { _p: u8 }
#[verifier::external_body] #[derive(Debug)] pub struct MapWireBaselineError { _p: u8 }
#[verifier::external_body] #[derive(Debug)] pub struct MapWireDelayError { _p: u8 }
#[verifier::external_body] #[derive(Debug)] pub struct MapWireGainError { _p: u8 }

// calibration tables (lazy_static HashMaps keyed by pad): opaque, a function of (run number, pad)
pub uninterp spec fn pad_baseline_table(run: u32, p: TpcPadPosition) -> Result<i16, MapPadBaselineError>;
pub uninterp spec fn pad_gain_table(run: u32, p: TpcPadPosition) -> Result<f64, MapPadGainError>;
pub open spec fn pad_delay_spec(run: u32) -> Result<usize, MapPadDelayError> {
    if run == 0xFFFF_FFFF { Ok(100usize) } else if run >= 7000 { Ok(115usize) } else { Err(MapPadDelayError::MissingMap { run_number: run }) }
}
// waveform.iter().skip(delay).map(|&v| f64::from(i32::from(v) - i32::from(baseline)) * gain).collect(): the chain is verified as the
// index loop that defines it (rule R30); the difference is exact integer arithmetic verified in the body (no overflow: also the Kani
// harness cal_pad_complete); the conversion to f64 and the product are floating point and stay opaque
pub uninterp spec fn scale(d: i32, gain: f64) -> f64;
#[verifier::external_body]
pub fn lift_scale(d: i32, gain: f64) -> (r: f64) ensures r == scale(d, gain) { unimplemented!() }
// the calibrated waveform: the first `delay` samples removed, every remaining sample, in order, as scale(raw - baseline, gain)
pub open spec fn calibrated(w: Seq<i16>, delay: usize, baseline: i16, gain: f64) -> Seq<f64> {
    Seq::new((if delay <= w.len() { w.len() - delay } else { 0 }) as nat, |i: int| scale((w[delay + i] as i32 - baseline as i32) as i32, gain))
}

pub open spec fn v2(p: PwbPacket) -> PwbV2Packet { match p { PwbPacket::V2(q) => q } }
// the samples of a sent channel c in packet p (its block of the data, without the two header words); channels are distinct (wf_pwb)
pub open spec fn sent_index(p: PwbV2Packet, c: ChannelId) -> int { choose|j: int| 0 <= j < p.channels_sent@.len() && p.channels_sent@[j] == c }
pub open spec fn waveform_of(p: PwbV2Packet, c: ChannelId) -> Seq<i16> {
    let j = sent_index(p, c);
    p.data@.subrange(spc(p) * j + 2, spc(p) * j + 2 + p.requested_samples as int)
}
// the pad that the run's maps assign to (board, chip, channel): proved for TpcPadPosition::try_new in unit padmap
pub open spec fn pad_position_of(run: u32, b: BoardId, a: AfterId, c: PadChannelId) -> TpcPadPosition {
    let bp = pwb_lookup(run, b)->Ok_0;
    TpcPadPosition { column: TpcPadColumn((bp.column.0 * 4 + pad_table(a, c).column.0) as usize), row: TpcPadRow((bp.row.0 * 72 + pad_table(a, c).row.0) as usize) }
}
// What the statement of C10 says about one sent pad channel, given the slots filled so far.
pub enum PadOutcome {
    Rejected,
    Stored { col: int, row: int, delay: usize, baseline: i16, gain: f64 },   // calibrated waveform goes to this slot (if not empty after the delay)
}
pub open spec fn pad_outcome(run: u32, b: BoardId, a: AfterId, c: PadChannelId, slots: Seq<[Option<Vec<f64>>; 576]>) -> PadOutcome {
    if pwb_lookup(run, b) is Err { PadOutcome::Rejected } else {
        let p = pad_position_of(run, b, a, c);
        if slot(slots, p.column.0 as int, p.row.0 as int).is_some() { PadOutcome::Rejected }
        else if pad_baseline_table(run, p) is Err || pad_gain_table(run, p) is Err || pad_delay_spec(run) is Err { PadOutcome::Rejected }
        else { PadOutcome::Stored { col: p.column.0 as int, row: p.row.0 as int, delay: pad_delay_spec(run)->Ok_0,
                                    baseline: pad_baseline_table(run, p)->Ok_0, gain: pad_gain_table(run, p)->Ok_0 } }
    }
}
pub open spec fn slot(s: Seq<[Option<Vec<f64>>; 576]>, col: int, row: int) -> Option<Vec<f64>> { s[col]@[row] }
pub open spec fn slots_unchanged_except(a: Seq<[Option<Vec<f64>>; 576]>, b: Seq<[Option<Vec<f64>>; 576]>, col: int, row: int) -> bool {
    forall|i: int, j: int| 0 <= i < 32 && 0 <= j < 576 && !(i == col && j == row) ==> slot(a, i, j) == slot(b, i, j)
}
pub open spec fn slots_unchanged(a: Seq<[Option<Vec<f64>>; 576]>, b: Seq<[Option<Vec<f64>>; 576]>) -> bool {
    forall|i: int, j: int| 0 <= i < 32 && 0 <= j < 576 ==> slot(a, i, j) == slot(b, i, j)
}

// the j-th sent channel of packet p has been dealt with as the statement says (non-pad channels -- reset, fixed pattern noise -- carry
// no pad waveform): the calibrated waveform sits in the slot of the pad the maps assign, unless nothing is left of it after the delay
pub open spec fn pad_done(run: u32, b: BoardId, a: AfterId, p: PwbV2Packet, j: int, slots: Seq<[Option<Vec<f64>>; 576]>) -> bool {
    match p.channels_sent@[j] {
        ChannelId::Pad(c) => {
            let pos = pad_position_of(run, b, a, c);
            &&& pwb_lookup(run, b) is Ok
            &&& pad_baseline_table(run, pos) is Ok && pad_gain_table(run, pos) is Ok && pad_delay_spec(run) is Ok
            &&& ({ let cal = calibrated(waveform_of(p, p.channels_sent@[j]), pad_delay_spec(run)->Ok_0, pad_baseline_table(run, pos)->Ok_0, pad_gain_table(run, pos)->Ok_0);
                   cal.len() == 0 || (slot(slots, pos.column.0 as int, pos.row.0 as int) matches Some(v) && v@ == cal) })
        },
        _ => true,
    }
}
