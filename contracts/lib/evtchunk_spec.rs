// C10: the PadWing bank arm of MainEvent::try_from_banks (physics/src/lib.rs): decode one chunk, compare its board with the bank
// name, file it under (board, chip).  Error payloads of the other arms are opaque placeholders.
pub mod padwing { pub use super::BoardId; }
#[verifier::external_body] #[derive(Debug)] pub struct ParseMainEventBankNameError { _p: u8 }
#[verifier::external_body] #[derive(Debug)] pub struct TryAdcPacketFromSliceError { _p: u8 }
#[verifier::external_body] #[derive(Debug)] pub struct A16BoardId { _p: u8 }
#[verifier::external_body] #[derive(Debug)] pub struct A16ChannelId { _p: u8 }
#[verifier::external_body] #[derive(Debug)] pub struct Adc32BankName { _p: u8 }
#[verifier::external_body] #[derive(Debug)] pub struct TryPwbPacketFromChunksError { _p: u8 }
#[verifier::external_body] #[derive(Debug)] pub struct TpcPadPosition { _p: u8 }
#[verifier::external_body] #[derive(Debug)] pub struct TryTrgPacketFromSliceError { _p: u8 }
#[verifier::external_body] #[derive(Debug)] pub struct MapTpcWirePositionError { _p: u8 }
#[verifier::external_body] #[derive(Debug)] pub struct MapTpcPadPositionError { _p: u8 }
#[verifier::external_body] #[derive(Debug)] pub struct MapWireBaselineError { _p: u8 }
#[verifier::external_body] #[derive(Debug)] pub struct MapWireDelayError { _p: u8 }
#[verifier::external_body] #[derive(Debug)] pub struct MapWireGainError { _p: u8 }
#[verifier::external_body] #[derive(Debug)] pub struct MapPadBaselineError { _p: u8 }
#[verifier::external_body] #[derive(Debug)] pub struct MapPadDelayError { _p: u8 }
#[verifier::external_body] #[derive(Debug)] pub struct MapPadGainError { _p: u8 }

// HashMap<(BoardId, AfterId), Vec<Chunk>> of the chunks seen so far: opaque; its abstract state maps a key to the chunks filed
// under it, in arrival order.  `entry(key).or_default().push(chunk)` is an assumed leaf over that state.
#[verifier::external_body]
pub struct ChunkMap { _p: u8 }
pub uninterp spec fn filed(m: &ChunkMap) -> Map<(BoardId, AfterId), Seq<Chunk>>;
pub open spec fn filed_under(m: &ChunkMap, k: (BoardId, AfterId)) -> Seq<Chunk> { if filed(m).dom().contains(k) { filed(m)[k] } else { Seq::empty() } }
pub open spec fn after_of(ch: u8) -> AfterId { if ch == 0 { AfterId::A } else if ch == 1 { AfterId::B } else if ch == 2 { AfterId::C } else { AfterId::D } }
pub open spec fn key_of(c: Chunk) -> (BoardId, AfterId) { (pwb_board_of(c.device_id), after_of(c.channel_id)) }
