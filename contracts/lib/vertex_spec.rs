// C15 (vertexing half, first stage): beamline_clusters groups the candidate tracks by the z of their closest approach to the
// beamline.  Proved here: the groups are a partition of its input (as multisets) and none is empty.  Floats are opaque.
use vstd::multiset::*;
use vstd::seq_lib::*;

pub uninterp spec fn helix_ctb(h: Helix) -> Coordinate;      // Helix::closest_to_beamline: trigonometry, opaque
pub open spec fn tms(s: Seq<Track>) -> Multiset<Track> { s.to_multiset() }
pub open spec fn tms_all(cs: Seq<Vec<Track>>) -> Multiset<Track>
    decreases cs.len()
{
    if cs.len() == 0 { Multiset::empty() } else { tms_all(cs.drop_last()).add(tms(cs.last()@)) }
}
pub open spec fn lists_of(r: Seq<(Vec<Track>, Length)>) -> Seq<Vec<Track>> { Seq::new(r.len(), |i: int| r[i].0) }
pub open spec fn none_empty(cs: Seq<Vec<Track>>) -> bool { forall|i: int| 0 <= i < cs.len() ==> (#[trigger] cs[i])@.len() > 0 }

pub proof fn lemma_tms_all_push(cs: Seq<Vec<Track>>, c: Vec<Track>)
    ensures tms_all(cs.push(c)) == tms_all(cs).add(tms(c@))
{
    assert(cs.push(c).drop_last() == cs);
}
// replacing the last list by one that has one more track adds that track
pub proof fn lemma_tms_all_grow_last(cs: Seq<Vec<Track>>, ds: Seq<Vec<Track>>, t: Track)
    requires cs.len() > 0, ds.len() == cs.len(), forall|i: int| 0 <= i < cs.len() - 1 ==> ds[i] == cs[i], ds.last()@ == cs.last()@.push(t)
    ensures tms_all(ds) == tms_all(cs).insert(t)
{
    broadcast use group_to_multiset_ensures, group_multiset_axioms;
    assert(ds.drop_last() =~= cs.drop_last());
    assert(tms_all(ds) =~= tms_all(cs).insert(t));
}
pub proof fn lemma_tms_prefix_step(s: Seq<Track>, i: int)
    requires 0 <= i < s.len()
    ensures tms(s.subrange(0, i + 1)) == tms(s.subrange(0, i)).insert(s[i])
{
    broadcast use group_to_multiset_ensures;
    assert(s.subrange(0, i + 1) =~= s.subrange(0, i).push(s[i]));
}
pub proof fn lemma_tms_single(t: Track)
    ensures tms(seq![t]) =~= Multiset::<Track>::empty().insert(t)
{
    broadcast use group_to_multiset_ensures, group_multiset_axioms;
    assert(seq![t] =~= Seq::<Track>::empty().push(t));
    assert forall|v: Track| tms(Seq::<Track>::empty()).count(v) == 0 by {
        if tms(Seq::<Track>::empty()).count(v) > 0 { assert(Seq::<Track>::empty().contains(v)); }
    }
    assert(tms(Seq::<Track>::empty()) =~= Multiset::<Track>::empty());
}
pub proof fn lemma_tms_all_lists(a: Seq<Vec<Track>>, b: Seq<Vec<Track>>)
    requires a.len() == b.len(), forall|i: int| 0 <= i < a.len() ==> (#[trigger] a[i])@ == b[i]@
    ensures tms_all(a) == tms_all(b)
    decreases a.len()
{
    if a.len() > 0 {
        lemma_tms_all_lists(a.drop_last(), b.drop_last());
    }
}
