// C20: specification of chronobox_time and the hardware clock model it must agree with.

#[verifier::external_body]
pub struct Time { v: f64 }                          // uom::si::f64::Time: opaque here (floats are not reasoned about)
pub uninterp spec fn ticks_of(t: Time) -> u64;      // the 10 MHz tick count a Time was made from
// the tail `time as f64 / TIMESTAMP_CLOCK_FREQ` (u64 -> seconds), kept opaque
#[verifier::external_body]
pub fn lift_to_time(time: u64) -> (r: Time) ensures ticks_of(r) == time { unimplemented!() }

pub open spec fn wf_tsc(t: TimestampCounter) -> bool { t.timestamp < 0x1000000 && t.timestamp & 1 == 0 }     // proved for the parser in C07 (24-bit field, edge bit cleared)
pub open spec fn wf_marker(m: WrapAroundMarker) -> bool { m.counter < 0x800000 }                             // 23-bit field

pub open spec fn guard(tsc: TimestampCounter, p: WrapAroundMarker, n: WrapAroundMarker) -> bool {
    p.counter + 1 == n.counter && p.timestamp_top_bit != n.timestamp_top_bit
        && (tsc.timestamp >= 0x800000) != p.timestamp_top_bit
}
pub open spec fn time_of(tsc: TimestampCounter, p: WrapAroundMarker) -> int {
    tsc.timestamp as int + ((p.counter as int + 1) / 2) * 0x1000000
}

pub proof fn lemma_topbit(x: u32)
    requires x < 0x1000000
    ensures ((x >> 23u32) == 1) == (x >= 0x800000)
{
    assert(x < 0x1000000 ==> (((x >> 23u32) == 1) == (x >= 0x800000))) by (bit_vector);
}
pub proof fn lemma_shift24()
    ensures (1u64 << 24u32) == 0x1000000u64
{
    assert((1u64 << 24u32) == 0x1000000u64) by (bit_vector);
}

// equivalent spellings of the same arithmetic (so that `/ 2` written as `>> 1`, `* 2^24` as `<< 24`, or the top-bit test as a
// comparison is not an alarm): the solver does not relate them by itself
pub broadcast proof fn lemma_spell_half(x: u32) ensures #[trigger] (x >> 1u32) == x / 2 { assert((x >> 1u32) == x / 2) by (bit_vector); }
pub broadcast proof fn lemma_spell_shl24(e: u64) requires e < 0x100_0000_0000 ensures #[trigger] (e << 24u32) == e * 0x1000000 {
    assert(e < 0x100_0000_0000 ==> (e << 24u32) == e * 0x1000000) by (bit_vector);
}
pub broadcast proof fn lemma_spell_top_of_24(x: u32) requires x < 0x1000000 ensures (#[trigger] (x >> 23u32) == 1) == (x >= 0x800000) {
    assert(x < 0x1000000 ==> (((x >> 23u32) == 1) == (x >= 0x800000))) by (bit_vector);
}
pub proof fn lemma_one_shl23() ensures (1u32 << 23u32) == 0x800000u32 { assert((1u32 << 23u32) == 0x800000u32) by (bit_vector); }
pub broadcast group cb_spellings { lemma_spell_half, lemma_spell_shl24, lemma_spell_top_of_24 }

// ---- hardware model: unbounded tick count T; the FIFO stores T mod 2^24 with bit 0 replaced by the edge flag (cleared by the
// parser); marker k is written when the 24-bit counter crosses a half period for the (k+1)-th time, i.e. at tick (k+1)*2^23,
// and records the top bit of the half period that just ended (k odd).
pub open spec fn hw_ts(t: nat) -> u32 { ((t % 0x1000000) - (t % 0x1000000) % 2) as u32 }
pub open spec fn hw_marker(k: nat) -> WrapAroundMarker { WrapAroundMarker { timestamp_top_bit: k % 2 == 1, counter: (k % 0x800000) as u32 } }
pub open spec fn hw_tsc(t: nat, channel: ChannelId, edge: EdgeType) -> TimestampCounter { TimestampCounter { channel, timestamp: hw_ts(t), edge } }

// an edge between marker k and marker k+1 gets exactly its true time (edge bit cleared)
pub proof fn lemma_hw_true_time(t: nat, k: nat, channel: ChannelId, edge: EdgeType)
    requires k + 1 < 0x800000, (k + 1) * 0x800000 <= t < (k + 2) * 0x800000
    ensures
        guard(hw_tsc(t, channel, edge), hw_marker(k), hw_marker(k + 1)),
        time_of(hw_tsc(t, channel, edge), hw_marker(k)) == t - t % 2,
{
    let q = t / 0x1000000;
    let r = t % 0x1000000;
    assert(t == q * 0x1000000 + r);
    if k % 2 == 1 {
        // (k+1) even: (k+1)*2^23 = ((k+1)/2)*2^24, so r < 2^23 and q == (k+1)/2
        let h = (k + 1) / 2;
        assert(k + 1 == 2 * h);
        assert((k + 1) * 0x800000 == h * 0x1000000) by (nonlinear_arith) requires k + 1 == 2 * h;
        assert((k + 2) * 0x800000 == h * 0x1000000 + 0x800000) by (nonlinear_arith) requires k + 1 == 2 * h;
        assert(q == h && r < 0x800000) by (nonlinear_arith) requires t == q * 0x1000000 + r, 0 <= r < 0x1000000, h * 0x1000000 <= t < h * 0x1000000 + 0x800000, q >= 0, h >= 0;
    } else {
        let h = k / 2;
        assert(k == 2 * h);
        assert((k + 1) * 0x800000 == h * 0x1000000 + 0x800000) by (nonlinear_arith) requires k == 2 * h;
        assert((k + 2) * 0x800000 == (h + 1) * 0x1000000) by (nonlinear_arith) requires k == 2 * h;
        assert(q == h && r >= 0x800000) by (nonlinear_arith) requires t == q * 0x1000000 + r, 0 <= r < 0x1000000, h * 0x1000000 + 0x800000 <= t < (h + 1) * 0x1000000, q >= 0, h >= 0;
    }
}

// an edge recorded on the wrong side of the markers (parity of its half period disagrees) is never given a time
pub proof fn lemma_hw_wrong_side(t: nat, j: nat, k: nat, channel: ChannelId, edge: EdgeType)
    requires k + 1 < 0x800000, (j + 1) * 0x800000 <= t < (j + 2) * 0x800000, j % 2 != k % 2
    ensures !guard(hw_tsc(t, channel, edge), hw_marker(k), hw_marker(k + 1))
{
    let q = t / 0x1000000;
    let r = t % 0x1000000;
    assert(t == q * 0x1000000 + r);
    if j % 2 == 1 {
        let h = (j + 1) / 2;
        assert(j + 1 == 2 * h);
        assert((j + 1) * 0x800000 == h * 0x1000000) by (nonlinear_arith) requires j + 1 == 2 * h;
        assert((j + 2) * 0x800000 == h * 0x1000000 + 0x800000) by (nonlinear_arith) requires j + 1 == 2 * h;
        assert(r < 0x800000) by (nonlinear_arith) requires t == q * 0x1000000 + r, 0 <= r < 0x1000000, h * 0x1000000 <= t < h * 0x1000000 + 0x800000, q >= 0, h >= 0;
    } else {
        let h = j / 2;
        assert(j == 2 * h);
        assert((j + 1) * 0x800000 == h * 0x1000000 + 0x800000) by (nonlinear_arith) requires j == 2 * h;
        assert((j + 2) * 0x800000 == (h + 1) * 0x1000000) by (nonlinear_arith) requires j == 2 * h;
        assert(r >= 0x800000) by (nonlinear_arith) requires t == q * 0x1000000 + r, 0 <= r < 0x1000000, h * 0x1000000 + 0x800000 <= t < (h + 1) * 0x1000000, q >= 0, h >= 0;
    }
}


// ---- rows of one board (the `for chunk in fifo.split_inclusive(..)` loop of main) ---------------------------------------------
// `<[T]>::split_last` for Copy elements, returning the last element by value (the /repo pattern `Some((&E, rest))` copies it)
#[verifier::external_body]
pub fn ext_split_last_copy<T: Copy>(s: &[T]) -> (r: Option<(T, &[T])>)
    ensures s@.len() == 0 ==> r.is_none(),
            s@.len() > 0 ==> (r matches Some(p) && p.0 == s@[s@.len() - 1] && p.1@ == s@.subrange(0, s@.len() - 1)),
{ match s.split_last() { Some((&l, rest)) => Some((l, rest)), None => None } }

pub open spec fn entry_wf(e: FifoEntry) -> bool {
    match e { FifoEntry::TimestampCounter(t) => wf_tsc(t), FifoEntry::WrapAroundMarker(m) => wf_marker(m) }
}
// the last marker in front of position i / the first marker at or behind position i
pub open spec fn prev_marker(s: Seq<FifoEntry>, i: int) -> Option<WrapAroundMarker> decreases i {
    if i <= 0 || i > s.len() { None } else { match s[i - 1] { FifoEntry::WrapAroundMarker(m) => Some(m), _ => prev_marker(s, i - 1) } }
}
pub open spec fn next_marker(s: Seq<FifoEntry>, i: int) -> Option<WrapAroundMarker> decreases s.len() - i {
    if i < 0 || i >= s.len() { None } else { match s[i] { FifoEntry::WrapAroundMarker(m) => Some(m), _ => next_marker(s, i + 1) } }
}
// positions < n that hold a timestamp entry, ascending
pub open spec fn ts_positions(s: Seq<FifoEntry>, n: int) -> Seq<int> decreases n {
    if n <= 0 || n > s.len() { Seq::empty() } else {
        let r = ts_positions(s, n - 1);
        if s[n - 1] is TimestampCounter { r.push(n - 1) } else { r }
    }
}
// r is the row of the timestamp entry at position i: its own channel and edge, and the time chronobox_time gives it between the
// two markers that enclose it in the stream (none if one of them is missing or they do not fit: never a guessed time)
pub open spec fn row_ok(r: Row, s: Seq<FifoEntry>, i: int, board: String) -> bool {
    let p = prev_marker(s, i);
    let n = next_marker(s, i);
    &&& 0 <= i < s.len()
    &&& s[i] matches FifoEntry::TimestampCounter(t)
    &&& r.board == board
    &&& r.channel == t.channel.0
    &&& r.leading_edge == (t.edge is Leading)
    &&& r.chronobox_time.is_some() == (p.is_some() && n.is_some() && guard(t, p.unwrap(), n.unwrap()))
    &&& (r.chronobox_time matches Some(x) ==> ticks_of(x) as int == time_of(t, p.unwrap()))
}
pub open spec fn rows_ok(rows: Seq<Row>, s: Seq<FifoEntry>, n: int, board: String) -> bool {
    &&& rows.len() == ts_positions(s, n).len()
    &&& forall|k: int| 0 <= k < rows.len() ==> row_ok(#[trigger] rows[k], s, ts_positions(s, n)[k], board)
}
pub proof fn lemma_prev_const(s: Seq<FifoEntry>, a: int, i: int)
    requires 0 <= a <= i <= s.len(), forall|j: int| a <= j < i ==> !(#[trigger] s[j] is WrapAroundMarker)
    ensures prev_marker(s, i) == prev_marker(s, a)
    decreases i - a
{ if i > a { lemma_prev_const(s, a, i - 1); } }
pub proof fn lemma_next_const(s: Seq<FifoEntry>, i: int, b: int)
    requires 0 <= i <= b <= s.len(), forall|j: int| i <= j < b ==> !(#[trigger] s[j] is WrapAroundMarker)
    ensures next_marker(s, i) == next_marker(s, b)
    decreases b - i
{ if i < b { lemma_next_const(s, i + 1, b); } }
pub proof fn lemma_prev_wf(s: Seq<FifoEntry>, i: int)
    requires forall|j: int| 0 <= j < s.len() ==> entry_wf(#[trigger] s[j])
    ensures prev_marker(s, i) matches Some(p) ==> wf_marker(p)
    decreases i
{ if 0 < i <= s.len() { assert(entry_wf(s[i - 1])); lemma_prev_wf(s, i - 1); } }
pub proof fn lemma_next_wf(s: Seq<FifoEntry>, i: int)
    requires forall|j: int| 0 <= j < s.len() ==> entry_wf(#[trigger] s[j])
    ensures next_marker(s, i) matches Some(p) ==> wf_marker(p)
    decreases s.len() - i
{ if 0 <= i < s.len() { assert(entry_wf(s[i])); lemma_next_wf(s, i + 1); } }

// ---- the rows of a hardware-model stream carry the true time or none --------------------------------------------------------
pub open spec fn count_markers(s: Seq<FifoEntry>, i: int) -> nat decreases i {
    if i <= 0 || i > s.len() { 0 } else { count_markers(s, i - 1) + if s[i - 1] is WrapAroundMarker { 1nat } else { 0nat } }
}
// s is what the FIFO of a faithful Chronobox holds from its marker number k0 on: the j-th marker of s is hw_marker(k0 + j), and the
// timestamp entry at position i records the edge that happened at tick ticks[i]
pub open spec fn hw_stream(s: Seq<FifoEntry>, ticks: Seq<nat>, k0: nat) -> bool {
    &&& ticks.len() == s.len()
    &&& k0 + count_markers(s, s.len() as int) < 0x800000
    &&& forall|i: int| 0 <= i < s.len() ==> match #[trigger] s[i] {
            FifoEntry::WrapAroundMarker(m) => m == hw_marker(k0 + count_markers(s, i)),
            FifoEntry::TimestampCounter(t) => t.timestamp == hw_ts(ticks[i]),
        }
}
pub proof fn lemma_count_mono(s: Seq<FifoEntry>, i: int, j: int)
    requires 0 <= i <= j <= s.len()
    ensures count_markers(s, i) <= count_markers(s, j)
    decreases j - i
{ if i < j { lemma_count_mono(s, i, j - 1); } }
pub proof fn lemma_prev_is_hw(s: Seq<FifoEntry>, ticks: Seq<nat>, k0: nat, i: int)
    requires hw_stream(s, ticks, k0), 0 <= i <= s.len()
    ensures
        count_markers(s, i) == 0 ==> prev_marker(s, i).is_none(),
        count_markers(s, i) > 0 ==> prev_marker(s, i) == Some(hw_marker((k0 + count_markers(s, i) - 1) as nat)),
    decreases i
{
    if i > 0 {
        lemma_prev_is_hw(s, ticks, k0, i - 1);
        let _ = s[i - 1];
    }
}
pub proof fn lemma_next_is_hw(s: Seq<FifoEntry>, ticks: Seq<nat>, k0: nat, i: int)
    requires hw_stream(s, ticks, k0), 0 <= i <= s.len()
    ensures next_marker(s, i) matches Some(m) ==> m == hw_marker(k0 + count_markers(s, i))
    decreases s.len() - i
{
    if i < s.len() {
        lemma_next_is_hw(s, ticks, k0, i + 1);
        let _ = s[i];
    }
}
// a row computed as row_ok says, for an edge that reached the FIFO between the two markers of its own half period: its time is the
// tick of the edge (edge bit cleared) -- and for an edge that reached the FIFO one half period late or early: no time at all
pub proof fn lemma_hw_rows(s: Seq<FifoEntry>, ticks: Seq<nat>, k0: nat, i: int, r: Row, board: String, j: nat)
    requires hw_stream(s, ticks, k0), row_ok(r, s, i, board), prev_marker(s, i).is_some(), next_marker(s, i).is_some(),
    ensures
        ({ let k = (k0 + count_markers(s, i) - 1) as nat;
           &&& ((k + 1) * 0x800000 <= ticks[i] < (k + 2) * 0x800000 ==> (r.chronobox_time matches Some(x) && ticks_of(x) as int == ticks[i] - ticks[i] % 2))
           &&& ((j + 1) * 0x800000 <= ticks[i] < (j + 2) * 0x800000 && j % 2 != k % 2 ==> r.chronobox_time.is_none()) }),
{
    lemma_prev_is_hw(s, ticks, k0, i);
    lemma_next_is_hw(s, ticks, k0, i);
    lemma_count_mono(s, i, s.len() as int);
    let c = count_markers(s, i);
    assert(c > 0);
    let k = (k0 + c - 1) as nat;
    let t = ticks[i];
    let tsc = s[i]->TimestampCounter_0;
    assert(tsc.timestamp == hw_ts(t));
    assert(prev_marker(s, i) == Some(hw_marker(k)));
    assert(next_marker(s, i) == Some(hw_marker(k + 1)));
    if (k + 1) * 0x800000 <= t < (k + 2) * 0x800000 {
        lemma_hw_true_time(t, k, tsc.channel, tsc.edge);
        assert(tsc == hw_tsc(t, tsc.channel, tsc.edge));
    }
    if (j + 1) * 0x800000 <= t < (j + 2) * 0x800000 && j % 2 != k % 2 {
        lemma_hw_wrong_side(t, j, k, tsc.channel, tsc.edge);
        assert(tsc == hw_tsc(t, tsc.channel, tsc.edge));
    }
}

// ---- the cut at the first counter-0 marker ----------------------------------------------------------------------------------
pub enum CbError { Refused }            // anyhow::Error, opaque: only "the board is refused" matters
pub open spec fn is_epoch0(e: FifoEntry) -> bool { e matches FifoEntry::WrapAroundMarker(m) && m.counter == 0 }
// the first position >= i holding a marker with counter 0, or the length if there is none
pub open spec fn first_epoch0(s: Seq<FifoEntry>, i: int) -> int decreases s.len() - i {
    if i < 0 || i >= s.len() { s.len() as int } else if is_epoch0(s[i]) { i } else { first_epoch0(s, i + 1) }
}

// ---- from bytes to entries: the element decoding that Kani proves for the real fifo_entry (harness fifo_word_complete), lifted to
// ---- the stream by fifo_spec.rs (`entries`: the 4-byte words of the longest prefix, scaler blocks skipped)
pub open spec fn le24(w: Seq<u8>) -> u32 { (w[0] as u32) | ((w[1] as u32) << 8u32) | ((w[2] as u32) << 16u32) }
pub open spec fn decode_word(w: Seq<u8>) -> FifoEntry {
    if w[3] == 0xff {
        FifoEntry::WrapAroundMarker(WrapAroundMarker { timestamp_top_bit: w[2] & 0x80 == 0x80, counter: le24(w) & 0x007F_FFFF })
    } else {
        FifoEntry::TimestampCounter(TimestampCounter { channel: ChannelId(w[3] & 0x7f), timestamp: le24(w) & 0x00FF_FFFE,
                                                        edge: if w[0] & 1 == 1 { EdgeType::Trailing } else { EdgeType::Leading } })
    }
}
pub open spec fn decoded(s: Seq<u8>) -> Seq<FifoEntry> { entries(s).map_values(|w: Seq<u8>| decode_word(w)) }
pub proof fn lemma_word_wf(w: Seq<u8>)
    requires w.len() == 4
    ensures entry_wf(decode_word(w))
{
    let (a, b, c) = (w[0], w[1], w[2]);
    assert((((a as u32) | ((b as u32) << 8u32) | ((c as u32) << 16u32)) & 0x007F_FFFF) < 0x800000) by (bit_vector);
    assert((((a as u32) | ((b as u32) << 8u32) | ((c as u32) << 16u32)) & 0x00FF_FFFE) < 0x1000000) by (bit_vector);
    assert(((((a as u32) | ((b as u32) << 8u32) | ((c as u32) << 16u32)) & 0x00FF_FFFE) & 1) == 0) by (bit_vector);
}
pub proof fn lemma_entries_are_words(s: Seq<u8>)
    ensures forall|i: int| 0 <= i < entries(s).len() ==> (#[trigger] entries(s)[i]).len() == 4
    decreases s.len()
{
    if is_entry(s) {
        lemma_entries_are_words(s.skip(4));
        let head = seq![s.subrange(0, 4)];
        let tail = entries(s.skip(4));
        assert(entries(s) == head + tail);
        assert forall|i: int| 0 <= i < entries(s).len() implies (#[trigger] entries(s)[i]).len() == 4 by {
            if i == 0 { assert(entries(s)[0] == s.subrange(0, 4)); } else { assert(entries(s)[i] == tail[i - 1]); }
        }
    }
    else if is_block(s) { lemma_entries_are_words(s.skip(244)); assert(entries(s) == entries(s.skip(244))); }
    else { assert(entries(s) == Seq::<Seq<u8>>::empty()); }
}
pub proof fn lemma_decoded_wf(s: Seq<u8>)
    ensures forall|i: int| 0 <= i < decoded(s).len() ==> entry_wf(#[trigger] decoded(s)[i])
{
    lemma_entries_are_words(s);
    assert forall|i: int| 0 <= i < decoded(s).len() implies entry_wf(#[trigger] decoded(s)[i]) by {
        lemma_word_wf(entries(s)[i]);
    }
}
