// Shared prelude: assumed contracts of std byte-order functions (A-STD) and byte views.
// Everything here is specification; none of it models /repo code.

#[verifier::external_type_specification]
#[verifier::external_body]
pub struct ExTryFromSliceError(core::array::TryFromSliceError);

pub open spec fn le16(s: Seq<u8>, o: int) -> u16 { vstd::bytes::spec_u16_from_le_bytes(s.subrange(o, o + 2)) }
pub open spec fn le32(s: Seq<u8>, o: int) -> u32 { vstd::bytes::spec_u32_from_le_bytes(s.subrange(o, o + 4)) }
pub open spec fn le64(s: Seq<u8>, o: int) -> u64 { vstd::bytes::spec_u64_from_le_bytes(s.subrange(o, o + 8)) }

pub open spec fn lei16(s: Seq<u8>, o: int) -> int { let v = s[o] as int + 256 * (s[o + 1] as int); if v >= 32768 { v - 65536 } else { v } }
// big-endian views in mathematical integers
pub open spec fn be16(s: Seq<u8>, o: int) -> int { s[o] as int * 256 + s[o + 1] as int }
pub open spec fn bei16(s: Seq<u8>, o: int) -> int { if be16(s, o) >= 32768 { be16(s, o) - 65536 } else { be16(s, o) } }
pub open spec fn be32(s: Seq<u8>, o: int) -> int { be16(s, o) * 65536 + be16(s, o + 2) }
pub open spec fn bei32(s: Seq<u8>, o: int) -> int { if be32(s, o) >= 0x8000_0000 { be32(s, o) - 0x1_0000_0000 } else { be32(s, o) } }
pub open spec fn be64(s: Seq<u8>, o: int) -> int { be32(s, o) * 0x1_0000_0000 + be32(s, o + 4) }

// R2: <slice range>.try_into().unwrap()  -- the unwrap obligation survives as the length precondition
#[verifier::external_body]
pub fn ext_slice_to_array<const N: usize>(s: &[u8]) -> (r: [u8; N])
    requires s@.len() == N
    ensures r@ == s@
{ s.try_into().unwrap() }

// R3: <slice range> == [literals]
#[verifier::external_body]
pub fn ext_slice_eq_arr<const N: usize>(a: &[u8], b: &[u8; N]) -> (r: bool)
    ensures r == (a@ == b@)
{ a == b }

// R1: uN::from_{le,be}_bytes
#[verifier::external_body]
pub fn ext_u16_from_le_bytes(b: [u8; 2]) -> (r: u16) ensures r == vstd::bytes::spec_u16_from_le_bytes(b@) { u16::from_le_bytes(b) }
#[verifier::external_body]
pub fn ext_u32_from_le_bytes(b: [u8; 4]) -> (r: u32) ensures r == vstd::bytes::spec_u32_from_le_bytes(b@) { u32::from_le_bytes(b) }
#[verifier::external_body]
pub fn ext_u64_from_le_bytes(b: [u8; 8]) -> (r: u64) ensures r == vstd::bytes::spec_u64_from_le_bytes(b@) { u64::from_le_bytes(b) }
#[verifier::external_body]
pub fn ext_u16_from_be_bytes(b: [u8; 2]) -> (r: u16) ensures r as int == be16(b@, 0) { u16::from_be_bytes(b) }
#[verifier::external_body]
pub fn ext_i16_from_be_bytes(b: [u8; 2]) -> (r: i16) ensures r as int == bei16(b@, 0) { i16::from_be_bytes(b) }
#[verifier::external_body]
pub fn ext_u32_from_be_bytes(b: [u8; 4]) -> (r: u32) ensures r as int == be32(b@, 0) { u32::from_be_bytes(b) }
#[verifier::external_body]
pub fn ext_i32_from_be_bytes(b: [u8; 4]) -> (r: i32) ensures r as int == bei32(b@, 0) { i32::from_be_bytes(b) }
#[verifier::external_body]
pub fn ext_u64_from_be_bytes(b: [u8; 8]) -> (r: u64) ensures r as int == be64(b@, 0) { u64::from_be_bytes(b) }
#[verifier::external_body]
pub fn ext_i16_from_le_bytes(b: [u8; 2]) -> (r: i16) ensures r as int == lei16(b@, 0) { i16::from_le_bytes(b) }

// ---- equivalent spellings of the same bit test (so that rewriting a mask check as a shift, or `% 4` as `& 3`, is not an alarm):
// the solver does not relate them by itself.
pub broadcast proof fn lemma_spell_shr8(x: u32) ensures #[trigger] (x >> 8u32) << 8u32 == x & 0xFFFFFF00 { assert((x >> 8u32) << 8u32 == x & 0xFFFFFF00) by (bit_vector); }
pub broadcast proof fn lemma_spell_shr16(x: u32) ensures #[trigger] (x >> 16u32) << 16u32 == x & 0xFFFF0000 { assert((x >> 16u32) << 16u32 == x & 0xFFFF0000) by (bit_vector); }
pub broadcast proof fn lemma_spell_shr24(x: u32) ensures #[trigger] (x >> 24u32) << 24u32 == x & 0xFF000000 { assert((x >> 24u32) << 24u32 == x & 0xFF000000) by (bit_vector); }
pub broadcast proof fn lemma_spell_shr28(x: u32) ensures #[trigger] (x >> 28u32) << 28u32 == x & 0xF0000000 { assert((x >> 28u32) << 28u32 == x & 0xF0000000) by (bit_vector); }
pub broadcast proof fn lemma_spell_shr31(x: u32) ensures #[trigger] (x >> 31u32) << 31u32 == x & 0x80000000 { assert((x >> 31u32) << 31u32 == x & 0x80000000) by (bit_vector); }
pub broadcast proof fn lemma_spell_shr_zero(x: u32, k: u32) requires k < 32 ensures (#[trigger] (x >> k) == 0) == ((x >> k) << k == 0) {
    assert(k < 32 ==> (((x >> k) == 0) == ((x >> k) << k == 0))) by (bit_vector);
}
pub broadcast proof fn lemma_spell_top_bit(x: u32) ensures (#[trigger] (x & 0x80000000) != 0) == (x >= 0x80000000) { assert(((x & 0x80000000) != 0) == (x >= 0x80000000)) by (bit_vector); }
pub broadcast proof fn lemma_spell_mod4(n: usize) ensures #[trigger] (n & 3) == n % 4 { assert((n & 3) == n % 4) by (bit_vector); }
pub broadcast proof fn lemma_spell_mod2(n: usize) ensures #[trigger] (n & 1) == n % 2 { assert((n & 1) == n % 2) by (bit_vector); }
pub broadcast proof fn lemma_spell_nibble(x: u32) ensures ((#[trigger] (x >> 28u32)) == 8) == (x & 0xF0000000 == 0x80000000), ((x >> 28u32) == 0xE) == (x & 0xF0000000 == 0xE0000000) {
    assert((((x >> 28u32)) == 8) == (x & 0xF0000000 == 0x80000000)) by (bit_vector);
    assert(((x >> 28u32) == 0xE) == (x & 0xF0000000 == 0xE0000000)) by (bit_vector);
}
pub broadcast proof fn lemma_spell_bit31(x: u32) ensures ((#[trigger] (x >> 31u32)) == 1) == (x & 0x80000000 != 0) { assert(((x >> 31u32) == 1) == (x & 0x80000000 != 0)) by (bit_vector); }
pub broadcast proof fn lemma_spell_bit12(f: u16) ensures (#[trigger] (f & 0x1000) != 0) == ((f >> 12u16) & 1 == 1) { assert(((f & 0x1000) != 0) == ((f >> 12u16) & 1 == 1)) by (bit_vector); }
pub broadcast proof fn lemma_spell_bit13(f: u16) ensures (#[trigger] (f & 0x2000) != 0) == ((f >> 13u16) & 1 == 1) { assert(((f & 0x2000) != 0) == ((f >> 13u16) & 1 == 1)) by (bit_vector); }
pub broadcast group bit_spellings { lemma_spell_nibble, lemma_spell_bit31, lemma_spell_bit12, lemma_spell_bit13, lemma_spell_shr8, lemma_spell_shr16, lemma_spell_shr24, lemma_spell_shr28, lemma_spell_shr31, lemma_spell_shr_zero, lemma_spell_top_bit, lemma_spell_mod4, lemma_spell_mod2 }
