// C05: specification of a PWB v2 packet, from the property statement and the layout table of the module
// documentation (little endian).

pub uninterp spec fn pwb_known_mac(m: Seq<u8>) -> bool;     // membership in the documented PadWing board table (A-MAPS; Kani: complete)


// ---- 80-bit channel masks
pub open spec fn bit(m: u128, i: nat) -> bool { (m >> (i as u128)) & 1 == 1 }
pub open spec fn low(n: nat) -> u128 { (((1u128 << (n as u128)) - 1) as u128) }
// little-endian value of the 10 bytes at offset o
pub open spec fn mask80(s: Seq<u8>, o: int) -> u128 {
    (s[o] as u128) | (s[o + 1] as u128) << 8 | (s[o + 2] as u128) << 16 | (s[o + 3] as u128) << 24 | (s[o + 4] as u128) << 32
        | (s[o + 5] as u128) << 40 | (s[o + 6] as u128) << 48 | (s[o + 7] as u128) << 56 | (s[o + 8] as u128) << 64 | (s[o + 9] as u128) << 72
}
pub proof fn lemma_mask80_low(s: Seq<u8>, o: int)
    requires s[o + 9] & 128 == 0
    ensures mask80(s, o) & low(79) == mask80(s, o)
{
    let (b0, b1, b2, b3, b4, b5, b6, b7, b8, b9) = (s[o], s[o + 1], s[o + 2], s[o + 3], s[o + 4], s[o + 5], s[o + 6], s[o + 7], s[o + 8], s[o + 9]);
    assert(b9 & 128 == 0 ==> ((b0 as u128) | (b1 as u128) << 8 | (b2 as u128) << 16 | (b3 as u128) << 24 | (b4 as u128) << 32
        | (b5 as u128) << 40 | (b6 as u128) << 48 | (b7 as u128) << 56 | (b8 as u128) << 64 | (b9 as u128) << 72) & (((1u128 << 79) - 1) as u128)
        == ((b0 as u128) | (b1 as u128) << 8 | (b2 as u128) << 16 | (b3 as u128) << 24 | (b4 as u128) << 32
        | (b5 as u128) << 40 | (b6 as u128) << 48 | (b7 as u128) << 56 | (b8 as u128) << 64 | (b9 as u128) << 72)) by (bit_vector);
}
// ascending positions i < n with bit i of m set
pub open spec fn set_bits_below(m: u128, n: nat) -> Seq<u16>
    decreases n
{
    if n == 0 { Seq::empty() } else {
        let r = set_bits_below(m, (n - 1) as nat);
        if bit(m, (n - 1) as nat) { r.push((n - 1) as u16) } else { r }
    }
}

// ---- readout index -> channel id (documentation: reset 1..3, FPN at 16/29/54/67, pads numbered 1..72 in between)
pub open spec fn chan_of(i: u16) -> ChannelId {
    if i <= 3 { ChannelId::Reset(ResetChannelId(i)) }
    else if i == 16 { ChannelId::Fpn(FpnChannelId(1)) }
    else if i == 29 { ChannelId::Fpn(FpnChannelId(2)) }
    else if i == 54 { ChannelId::Fpn(FpnChannelId(3)) }
    else if i == 67 { ChannelId::Fpn(FpnChannelId(4)) }
    else { ChannelId::Pad(PadChannelId((i - 3 - (if i > 16 { 1int } else { 0 }) - (if i > 29 { 1int } else { 0 }) - (if i > 54 { 1int } else { 0 }) - (if i > 67 { 1int } else { 0 })) as u16)) }
}
pub proof fn lemma_chan_injective(a: u16, b: u16)
    requires 1 <= a <= 79, 1 <= b <= 79, chan_of(a) == chan_of(b)
    ensures a == b
{
}
pub open spec fn chan_list(m: u128) -> Seq<ChannelId> {
    set_bits_below(m, 79).map_values(|i: u16| chan_of((i + 1) as u16))
}

pub open spec fn block_ok(s: Seq<u8>, off: int, idx: int, samples: int) -> bool {
    &&& le16(s, off) as int == idx
    &&& le16(s, off + 2) as int == samples
    &&& (samples % 2 != 0 ==> s.subrange(off + 4 + 2 * samples, off + 4 + 2 * samples + 2) == seq![0u8, 0u8])
}

pub open spec fn pwb_ok(s: Seq<u8>) -> bool {
    &&& s.len() >= 56
    &&& s[0] == 2
    &&& 65 <= s[1] <= 68
    &&& s[2] == 0
    &&& (s[3] == 0 || s[3] == 1 || s[3] == 3)
    &&& pwb_known_mac(s.subrange(4, 10))
    &&& s.subrange(18, 20) == seq![0u8, 0u8]
    &&& le16(s, 20) <= 511
    &&& le16(s, 22) <= 511
    &&& s[33] & 128 == 0
    &&& s[43] & 128 == 0
    &&& {
        let samples = le16(s, 22) as int;
        let bpc = 4 + 2 * (samples + samples % 2);
        let sent = set_bits_below(mask80(s, 24), 79);
        &&& s.len() == 52 + sent.len() * bpc + 4
        &&& forall|j: int| 0 <= j < sent.len() ==> #[trigger] block_ok(s, 52 + j * bpc, sent[j] + 1, samples)
        &&& s.subrange(s.len() - 4, s.len() as int) == seq![204u8, 204u8, 204u8, 204u8]
    }
}

pub open spec fn pwb_fields(p: PwbV2Packet, s: Seq<u8>) -> bool {
    &&& (s[1] == 65 ==> p.after_id == AfterId::A) && (s[1] == 66 ==> p.after_id == AfterId::B)
        && (s[1] == 67 ==> p.after_id == AfterId::C) && (s[1] == 68 ==> p.after_id == AfterId::D)
    &&& p.compression == Compression::Raw
    &&& (s[3] == 0 ==> p.trigger_source == Trigger::External) && (s[3] == 1 ==> p.trigger_source == Trigger::Manual)
        && (s[3] == 3 ==> p.trigger_source == Trigger::InternalPulse)
    &&& p.board_id.mac_address@ == s.subrange(4, 10)
    &&& p.trigger_delay == le16(s, 10)
    &&& p.trigger_timestamp == le64(s, 12)
    &&& p.last_sca_cell == le16(s, 20)
    &&& p.requested_samples == le16(s, 22)
    &&& p.channels_sent@ == chan_list(mask80(s, 24))
    &&& p.channels_over_threshold@ == chan_list(mask80(s, 34))
    &&& p.event_counter == le32(s, 44)
    &&& p.fifo_max_depth == le16(s, 48)
    &&& p.event_descriptor_write_depth == s[50]
    &&& p.event_descriptor_read_depth == s[51]
    &&& p.data@.len() * 2 == s.len() - 52
    &&& forall|i: int| 0 <= i < p.data@.len() ==> #[trigger] p.data@[i] as int == lei16(s, 52 + 2 * i)
}

// samples per channel in `data` (i16 units): channel index word, size word, samples, padding
pub open spec fn spc(p: PwbV2Packet) -> int { 2 + p.requested_samples as int + p.requested_samples as int % 2 }
// struct invariant: what waveform_at relies on
pub open spec fn wf_pwb(p: PwbV2Packet) -> bool {
    &&& p.requested_samples <= 511
    &&& p.channels_sent@.len() <= 79
    &&& p.data@.len() == p.channels_sent@.len() * spc(p) + 2
    &&& forall|i: int, j: int| 0 <= i < j < p.channels_sent@.len() ==> p.channels_sent@[i] != p.channels_sent@[j]
}

