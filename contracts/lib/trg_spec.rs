// C06: specification of a TRG v3 packet, written from the property statement and the
// layout table in the module documentation (offsets, little endian).

pub broadcast proof fn lemma_mask16(x: u32) ensures #[trigger] (x & 0xFFFF) <= 0xFFFF { assert((x & 0xFFFF) <= 0xFFFF) by (bit_vector); }
pub broadcast proof fn lemma_mask8(x: u32) ensures #[trigger] (x & 0xFF) <= 0xFF { assert((x & 0xFF) <= 0xFF) by (bit_vector); }
pub broadcast proof fn lemma_shr16(x: u32) ensures (x & 0xFF000000) == 0 ==> #[trigger] (x >> 16) <= 0xFF { assert((x & 0xFF000000) == 0 ==> (x >> 16) <= 0xFF) by (bit_vector); }
pub broadcast group trg_bits { lemma_mask16, lemma_mask8, lemma_shr16 }

pub open spec fn trg_ok(s: Seq<u8>) -> bool {
    &&& s.len() == 80
    &&& le32(s, 0) & 0x80000000 == 0
    &&& le32(s, 4) & 0xF0000000 == 0x80000000
    &&& le32(s, 76) & 0xF0000000 == 0xE0000000
    &&& le32(s, 4) & 0xFFFFFFF == le32(s, 12) & 0xFFFFFFF
    &&& le32(s, 76) & 0xFFFFFFF == le32(s, 12) & 0xFFFFFFF
    &&& le32(s, 36) & 0x7FFF0000 == 0
    &&& s.subrange(48, 52) == seq![0u8, 0u8, 0u8, 0u8]
    &&& le32(s, 52) & 0xFF000000 == 0
    &&& le32(s, 64) & 0xFFFFFF00 == 0
    &&& le32(s, 68) & 0xFFFFFF00 == 0
    &&& le32(s, 12) <= le32(s, 44) <= le32(s, 40) <= le32(s, 16)
}

// every accessor value as a function of the input bytes
pub open spec fn trg_fields(p: TrgV3Packet, s: Seq<u8>) -> bool {
    &&& p.udp_counter == le32(s, 0)
    &&& p.timestamp == le32(s, 8)
    &&& p.output_counter == le32(s, 12)
    &&& p.input_counter == le32(s, 16)
    &&& p.pulser_counter == le32(s, 20)
    &&& p.trigger_bitmap == le32(s, 24)
    &&& p.nim_bitmap == le32(s, 28)
    &&& p.esata_bitmap == le32(s, 32)
    &&& p.satisfied_mlu == (le32(s, 36) & 0x80000000 != 0)
    &&& p.aw16_prompt as u32 == le32(s, 36) & 0xFFFF
    &&& p.drift_veto_counter == le32(s, 40)
    &&& p.scaledown_counter == le32(s, 44)
    &&& p.aw16_multiplicity as u32 == le32(s, 52) >> 16
    &&& p.aw16_bus as u32 == le32(s, 52) & 0xFFFF
    &&& p.bsc64_bus == le64(s, 56)
    &&& p.bsc64_multiplicity as u32 == le32(s, 64) & 0xFF
    &&& p.coincidence_latch as u32 == le32(s, 68) & 0xFF
    &&& p.firmware_revision == le32(s, 72)
}

pub open spec fn trg_ordered(p: TrgV3Packet) -> bool {
    p.output_counter <= p.scaledown_counter <= p.drift_veto_counter <= p.input_counter
}
