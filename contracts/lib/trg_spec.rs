// C06: specification of a TRG v3 packet, written from the property statement and the
// layout table in the module documentation (offsets, little endian).

pub broadcast proof fn lemma_mask16(x: u32) ensures #[trigger] (x & 0xFFFF) <= 0xFFFF { assert((x & 0xFFFF) <= 0xFFFF) by (bit_vector); }
pub broadcast proof fn lemma_mask8(x: u32) ensures #[trigger] (x & 0xFF) <= 0xFF { assert((x & 0xFF) <= 0xFF) by (bit_vector); }
pub broadcast proof fn lemma_shr16(x: u32) ensures (x & 0xFF000000) == 0 ==> #[trigger] (x >> 16) <= 0xFF { assert((x & 0xFF000000) == 0 ==> (x >> 16) <= 0xFF) by (bit_vector); }
pub broadcast group trg_bits { lemma_mask16, lemma_mask8, lemma_shr16 }

pub open spec fn trg_ok(s: Seq<u8>) -> bool {
    &&& s.len() == 80
    &&& le32(s, 0) & 0x80000000 == 0
    &&& le32(s, 4) & 0xF0000000 == 0x80000000
    &&& le32(s, 76) & 0xF0000000 == 0xE0000000
    &&& le32(s, 4) & 0xFFFFFFF == le32(s, 12) & 0xFFFFFFF
    &&& le32(s, 76) & 0xFFFFFFF == le32(s, 12) & 0xFFFFFFF
    &&& le32(s, 36) & 0x7FFF0000 == 0
    &&& s.subrange(48, 52) == seq![0u8, 0u8, 0u8, 0u8]
    &&& le32(s, 52) & 0xFF000000 == 0
    &&& le32(s, 64) & 0xFFFFFF00 == 0
    &&& le32(s, 68) & 0xFFFFFF00 == 0
    &&& le32(s, 12) <= le32(s, 44) <= le32(s, 40) <= le32(s, 16)
}

// every accessor value as a function of the input bytes
pub open spec fn trg_fields(p: TrgV3Packet, s: Seq<u8>) -> bool {
    &&& p.udp_counter == le32(s, 0)
    &&& p.timestamp == le32(s, 8)
    &&& p.output_counter == le32(s, 12)
    &&& p.input_counter == le32(s, 16)
    &&& p.pulser_counter == le32(s, 20)
    &&& p.trigger_bitmap == le32(s, 24)
    &&& p.nim_bitmap == le32(s, 28)
    &&& p.esata_bitmap == le32(s, 32)
    &&& p.satisfied_mlu == (le32(s, 36) & 0x80000000 != 0)
    &&& p.aw16_prompt as u32 == le32(s, 36) & 0xFFFF
    &&& p.drift_veto_counter == le32(s, 40)
    &&& p.scaledown_counter == le32(s, 44)
    &&& p.aw16_multiplicity as u32 == le32(s, 52) >> 16
    &&& p.aw16_bus as u32 == le32(s, 52) & 0xFFFF
    &&& p.bsc64_bus == le64(s, 56)
    &&& p.bsc64_multiplicity as u32 == le32(s, 64) & 0xFF
    &&& p.coincidence_latch as u32 == le32(s, 68) & 0xFF
    &&& p.firmware_revision == le32(s, 72)
}

pub open spec fn trg_ordered(p: TrgV3Packet) -> bool {
    p.output_counter <= p.scaledown_counter <= p.drift_veto_counter <= p.input_counter
}

// ---- re-encoding (C06): the accessor values of an accepted packet reproduce its 80 bytes exactly
pub open spec fn w32(v: u32) -> Seq<u8> { vstd::bytes::spec_u32_to_le_bytes(v) }
pub open spec fn encode_trg(p: TrgV3Packet) -> Seq<u8> {
    w32(p.udp_counter) + w32(0x8000_0000u32 | (p.output_counter & 0x0FFF_FFFF)) + w32(p.timestamp) + w32(p.output_counter) + w32(p.input_counter)
        + w32(p.pulser_counter) + w32(p.trigger_bitmap) + w32(p.nim_bitmap) + w32(p.esata_bitmap)
        + w32((if p.satisfied_mlu { 0x8000_0000u32 } else { 0u32 }) | p.aw16_prompt as u32)
        + w32(p.drift_veto_counter) + w32(p.scaledown_counter) + seq![0u8, 0u8, 0u8, 0u8]
        + w32((p.aw16_multiplicity as u32) << 16 | p.aw16_bus as u32) + vstd::bytes::spec_u64_to_le_bytes(p.bsc64_bus)
        + w32(p.bsc64_multiplicity as u32) + w32(p.coincidence_latch as u32) + w32(p.firmware_revision)
        + w32(0xE000_0000u32 | (p.output_counter & 0x0FFF_FFFF))
}
proof fn lemma_word(s: Seq<u8>, o: int, v: u32)
    requires 0 <= o, o + 4 <= s.len(), v == le32(s, o)
    ensures w32(v) == s.subrange(o, o + 4)
{
    vstd::bytes::lemma_auto_spec_u32_to_from_le_bytes();
    assert(s.subrange(o, o + 4).len() == 4);
}
pub proof fn lemma_trg_reencode(p: TrgV3Packet, s: Seq<u8>)
    requires trg_ok(s), trg_fields(p, s)
    ensures encode_trg(p) == s
{
    vstd::bytes::lemma_auto_spec_u64_to_from_le_bytes();
    let (h, out, f) = (le32(s, 4), le32(s, 12), le32(s, 76));
    assert(h & 0xF000_0000 == 0x8000_0000 && h & 0x0FFF_FFFF == out & 0x0FFF_FFFF ==> h == 0x8000_0000u32 | (out & 0x0FFF_FFFF)) by (bit_vector);
    assert(f & 0xF000_0000 == 0xE000_0000 && f & 0x0FFF_FFFF == out & 0x0FFF_FFFF ==> f == 0xE000_0000u32 | (out & 0x0FFF_FFFF)) by (bit_vector);
    let w9 = le32(s, 36);
    assert(w9 & 0x7FFF_0000 == 0 ==> w9 == (if w9 & 0x8000_0000 != 0 { 0x8000_0000u32 } else { 0u32 }) | (w9 & 0xFFFF)) by (bit_vector);
    let w13 = le32(s, 52);
    assert(w13 & 0xFF00_0000 == 0 ==> w13 == ((w13 >> 16) << 16) | (w13 & 0xFFFF)) by (bit_vector);
    let (a, b) = (p.aw16_multiplicity as u32, p.aw16_bus as u32);
    assert(a == w13 >> 16 && b == w13 & 0xFFFF);
    let (w16, w17) = (le32(s, 64), le32(s, 68));
    assert(w16 & 0xFFFF_FF00 == 0 ==> w16 == w16 & 0xFF) by (bit_vector);
    assert(w17 & 0xFFFF_FF00 == 0 ==> w17 == w17 & 0xFF) by (bit_vector);
    lemma_word(s, 0, p.udp_counter); lemma_word(s, 4, h); lemma_word(s, 8, p.timestamp); lemma_word(s, 12, out);
    lemma_word(s, 16, p.input_counter); lemma_word(s, 20, p.pulser_counter); lemma_word(s, 24, p.trigger_bitmap);
    lemma_word(s, 28, p.nim_bitmap); lemma_word(s, 32, p.esata_bitmap); lemma_word(s, 36, w9); lemma_word(s, 40, p.drift_veto_counter);
    lemma_word(s, 44, p.scaledown_counter); lemma_word(s, 52, w13); lemma_word(s, 64, w16); lemma_word(s, 68, w17);
    lemma_word(s, 72, p.firmware_revision); lemma_word(s, 76, f);
    assert(s.subrange(56, 64).len() == 8);
    assert(vstd::bytes::spec_u64_to_le_bytes(p.bsc64_bus) == s.subrange(56, 64));
    assert(encode_trg(p) =~= s.subrange(0, 4) + s.subrange(4, 8) + s.subrange(8, 12) + s.subrange(12, 16) + s.subrange(16, 20) + s.subrange(20, 24)
        + s.subrange(24, 28) + s.subrange(28, 32) + s.subrange(32, 36) + s.subrange(36, 40) + s.subrange(40, 44) + s.subrange(44, 48) + s.subrange(48, 52)
        + s.subrange(52, 56) + s.subrange(56, 64) + s.subrange(64, 68) + s.subrange(68, 72) + s.subrange(72, 76) + s.subrange(76, 80));
    assert(encode_trg(p) =~= s);
}
