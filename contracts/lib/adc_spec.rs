// C02: specification of an Alpha16 ADC v3 packet, written from the property statement and the layout
// table of the module documentation (big endian).  Mathematical integers throughout.

pub uninterp spec fn alpha16_known_mac(m: Seq<u8>) -> bool;     // membership in the documented board table (A-MAPS; Kani: complete)

pub open spec fn footer(s: Seq<u8>) -> u16 { be16(s, s.len() - 4) as u16 }
pub open spec fn keep_last(s: Seq<u8>) -> int { (footer(s) & 0xFFF) as int }
pub open spec fn keep_bit(s: Seq<u8>) -> bool { (footer(s) >> 12) & 1 == 1 }
pub open spec fn supp(s: Seq<u8>) -> bool { (footer(s) >> 13) & 1 == 1 }
pub open spec fn floor_div64(x: int) -> int { x / 64 }
pub open spec fn wave(s: Seq<u8>) -> Seq<i16> { Seq::new(((s.len() - 36) / 2) as nat, |i: int| bei16(s, 32 + 2 * i) as i16) }
pub open spec fn sum64(w: Seq<i16>, n: int) -> int decreases n { if n <= 0 { 0 } else { sum64(w, n - 1) + w[n - 1] as int } }

pub proof fn lemma_sum_ext(a: Seq<i16>, b: Seq<i16>, n: int)
    requires 0 <= n <= a.len(), n <= b.len(), forall|i: int| 0 <= i < n ==> a[i] == b[i]
    ensures sum64(a, n) == sum64(b, n)
    decreases n
{ if n > 0 { lemma_sum_ext(a, b, n - 1); } }

pub proof fn lemma_sum_bounds(a: Seq<i16>, n: int)
    requires 0 <= n <= a.len()
    ensures -32768 * n <= sum64(a, n) <= 32767 * n
    decreases n
{ if n > 0 { lemma_sum_bounds(a, n - 1); } }

pub open spec fn adc_ok(s: Seq<u8>) -> bool {
    &&& s.len() >= 16
    &&& s[0] == 1 && s[1] == 3 && s[4] <= 7
    &&& (s[5] <= 15 || 128 <= s[5] <= 159)
    &&& if s.len() == 16 { supp(s) && !keep_bit(s) && keep_last(s) == 0 } else {
        let n = (s.len() - 36) / 2;
        let req = be16(s, 6);
        let last_index = (keep_last(s) - 1) * 2 - 2;
        &&& s.len() >= 36
        &&& s.subrange(12, 14) == seq![0u8, 0u8]
        &&& alpha16_known_mac(s.subrange(14, 20))
        &&& (s.len() - 36) % 2 == 0
        &&& n >= 64
        &&& bei16(s, s.len() - 2) == floor_div64(sum64(wave(s), 64))
        &&& if supp(s) { keep_bit(s) && keep_last(s) >= 34 && n > last_index && n <= req - 2 }
            else { (keep_bit(s) ==> keep_last(s) >= 34 && n > last_index) && (!keep_bit(s) ==> keep_last(s) == 0) && n == req - 2 }
    }
}

// every accessor value as a function of the input bytes
pub open spec fn adc_fields(p: AdcV3Packet, s: Seq<u8>) -> bool {
    &&& p.accepted_trigger as int == be16(s, 2)
    &&& p.module_id.0 == s[4]
    &&& (s[5] < 128 ==> p.channel_id == ChannelId::A16(Adc16ChannelId(s[5])))
    &&& (s[5] >= 128 ==> p.channel_id == ChannelId::A32(Adc32ChannelId((s[5] - 128) as u8)))
    &&& p.requested_samples as int == be16(s, 6)
    &&& p.suppression_baseline as int == bei16(s, s.len() - 2)
    &&& p.keep_last as int == keep_last(s)
    &&& p.keep_bit == keep_bit(s)
    &&& p.suppression_enabled == supp(s)
    &&& if s.len() == 16 {
            &&& p.event_timestamp as int == be32(s, 8)
            &&& p.board_id.is_none() && p.trigger_offset.is_none() && p.build_timestamp.is_none()
            &&& p.waveform@.len() == 0
        } else {
            &&& p.event_timestamp as int == be32(s, 20) * 0x1_0000_0000 + be32(s, 8)
            &&& p.board_id matches Some(b) && b.mac_address@ == s.subrange(14, 20)
            &&& p.trigger_offset matches Some(t) && t as int == bei32(s, 24)
            &&& p.build_timestamp matches Some(t) && t as int == be32(s, 28)
            &&& p.waveform@ =~= wave(s)
        }
}

// invariant used by event assembly (C09): a packet with samples knows its board
pub open spec fn wf_adc(p: AdcV3Packet) -> bool { p.waveform@.len() > 0 ==> p.board_id.is_some() }

// ---- re-encoding (C02): the accessor values of an accepted packet reproduce its bytes, apart from the two unused footer bits
pub open spec fn b16(v: int) -> Seq<u8> { seq![((v / 256) % 256) as u8, (v % 256) as u8] }                       // big endian, v taken modulo 2^16
pub open spec fn b32(v: int) -> Seq<u8> { b16((v / 65536) % 65536) + b16(v % 65536) }
pub open spec fn u16_of(v: int) -> int { if v < 0 { v + 65536 } else { v } }
pub open spec fn u32_of(v: int) -> int { if v < 0 { v + 0x1_0000_0000 } else { v } }
pub open spec fn enc_wave(w: Seq<i16>) -> Seq<u8>
    decreases w.len()
{
    if w.len() == 0 { Seq::empty() } else { enc_wave(w.drop_last()) + b16(u16_of(w.last() as int)) }
}
pub open spec fn chan_byte(c: ChannelId) -> int { match c { ChannelId::A16(x) => x.0 as int, ChannelId::A32(x) => x.0 as int + 128 } }
pub open spec fn footer_of(p: AdcV3Packet) -> int { p.keep_last as int + (if p.keep_bit { 4096int } else { 0 }) + (if p.suppression_enabled { 8192int } else { 0 }) }
pub open spec fn encode_adc(p: AdcV3Packet) -> Seq<u8> {
    let head = seq![1u8, 3u8] + b16(p.accepted_trigger as int) + seq![p.module_id.0, chan_byte(p.channel_id) as u8] + b16(p.requested_samples as int)
        + b32((p.event_timestamp as int) % 0x1_0000_0000);
    let tail = b16(footer_of(p)) + b16(u16_of(p.suppression_baseline as int));
    if p.board_id is None { head + tail } else {
        head + seq![0u8, 0u8] + p.board_id->Some_0.mac_address@ + b32((p.event_timestamp as int) / 0x1_0000_0000)
            + b32(u32_of(p.trigger_offset->Some_0 as int)) + b32(p.build_timestamp->Some_0 as int) + enc_wave(p.waveform@) + tail
    }
}
// the input with footer bits 14 and 15 cleared (they are not represented in the decoded packet)
pub open spec fn clear_unused(s: Seq<u8>) -> Seq<u8> { s.update(s.len() - 4, (s[s.len() - 4] % 64) as u8) }

proof fn lemma_b16(s: Seq<u8>, o: int)
    requires 0 <= o, o + 2 <= s.len()
    ensures b16(be16(s, o)) == s.subrange(o, o + 2)
{
    assert(b16(be16(s, o)) =~= s.subrange(o, o + 2));
}
proof fn lemma_b16_signed(s: Seq<u8>, o: int)
    requires 0 <= o, o + 2 <= s.len()
    ensures b16(u16_of(bei16(s, o))) == s.subrange(o, o + 2)
{
    assert(u16_of(bei16(s, o)) == be16(s, o));
    lemma_b16(s, o);
}
proof fn lemma_b32(s: Seq<u8>, o: int)
    requires 0 <= o, o + 4 <= s.len()
    ensures b32(be32(s, o)) == s.subrange(o, o + 4)
{
    lemma_b16(s, o);
    lemma_b16(s, o + 2);
    assert((be32(s, o) / 65536) % 65536 == be16(s, o));
    assert(be32(s, o) % 65536 == be16(s, o + 2));
    assert(s.subrange(o, o + 4) =~= s.subrange(o, o + 2) + s.subrange(o + 2, o + 4));
}
proof fn lemma_enc_wave(s: Seq<u8>, w: Seq<i16>, n: int)
    requires 0 <= n == w.len(), 32 + 2 * n <= s.len(), forall|i: int| 0 <= i < n ==> w[i] as int == bei16(s, 32 + 2 * i)
    ensures enc_wave(w) == s.subrange(32, 32 + 2 * n)
    decreases n
{
    if n == 0 {
        assert(s.subrange(32, 32) =~= Seq::<u8>::empty());
    } else {
        lemma_enc_wave(s, w.drop_last(), n - 1);
        lemma_b16_signed(s, 32 + 2 * (n - 1));
        assert(s.subrange(32, 32 + 2 * n) =~= s.subrange(32, 32 + 2 * (n - 1)) + s.subrange(32 + 2 * (n - 1), 32 + 2 * n));
    }
}
proof fn lemma_adc_footer(p: AdcV3Packet, s: Seq<u8>)
    requires s.len() >= 16, p.keep_last as int == keep_last(s), p.keep_bit == keep_bit(s), p.suppression_enabled == supp(s)
    ensures b16(footer_of(p)) == seq![(s[s.len() - 4] % 64) as u8, s[s.len() - 3]]
{
    let n = s.len() as int;
    let f = footer(s);
    assert((f & 0xFFF) as int + (if (f >> 12) & 1 == 1 { 4096int } else { 0 }) + (if (f >> 13) & 1 == 1 { 8192int } else { 0 }) == (f % 16384) as int) by (bit_vector);
    assert(footer_of(p) == be16(s, n - 4) % 16384);
    assert(b16(footer_of(p)) =~= seq![(s[n - 4] % 64) as u8, s[n - 3]]);
}
proof fn lemma_adc_head(p: AdcV3Packet, s: Seq<u8>)
    requires s.len() >= 16, s[0] == 1, s[1] == 3, p.accepted_trigger as int == be16(s, 2), p.module_id.0 == s[4], chan_byte(p.channel_id) == s[5],
             p.requested_samples as int == be16(s, 6), (p.event_timestamp as int) % 0x1_0000_0000 == be32(s, 8)
    ensures seq![1u8, 3u8] + b16(p.accepted_trigger as int) + seq![p.module_id.0, chan_byte(p.channel_id) as u8] + b16(p.requested_samples as int)
        + b32((p.event_timestamp as int) % 0x1_0000_0000) == s.subrange(0, 12)
{
    lemma_b16(s, 2); lemma_b16(s, 6); lemma_b32(s, 8);
    assert(seq![1u8, 3u8] + s.subrange(2, 4) + seq![s[4], s[5]] + s.subrange(6, 8) + s.subrange(8, 12) =~= s.subrange(0, 12));
}
#[verifier::rlimit(60)]
pub proof fn lemma_adc_reencode(p: AdcV3Packet, s: Seq<u8>)
    requires adc_ok(s), adc_fields(p, s)
    ensures encode_adc(p) == clear_unused(s)
{
    let n = s.len() as int;
    let t = clear_unused(s);
    lemma_adc_footer(p, s);
    lemma_b16_signed(s, n - 2);
    let tail = b16(footer_of(p)) + b16(u16_of(p.suppression_baseline as int));
    assert(tail =~= t.subrange(n - 4, n));
    assert(chan_byte(p.channel_id) == s[5]);
    if n == 16 {
        assert((p.event_timestamp as int) % 0x1_0000_0000 == be32(s, 8));
        lemma_adc_head(p, s);
        assert(t =~= s.subrange(0, 12) + t.subrange(12, 16));
    } else {
        assert((p.event_timestamp as int) % 0x1_0000_0000 == be32(s, 8));
        assert((p.event_timestamp as int) / 0x1_0000_0000 == be32(s, 20));
        lemma_adc_head(p, s);
        lemma_b32(s, 20); lemma_b32(s, 28);
        assert(u32_of(bei32(s, 24)) == be32(s, 24));
        lemma_b32(s, 24);
        let w = p.waveform@;
        lemma_enc_wave(s, w, w.len() as int);
        assert(32 + 2 * w.len() == n - 4);
        assert(t =~= s.subrange(0, 12) + seq![0u8, 0u8] + s.subrange(14, 20) + s.subrange(20, 24) + s.subrange(24, 28) + s.subrange(28, 32)
            + s.subrange(32, n - 4) + t.subrange(n - 4, n));
    }
}
// ... and its channel id is in range (needed by the wire map look-up of event assembly, C10)
pub open spec fn chan_wf(c: ChannelId) -> bool { match c { ChannelId::A16(x) => x.0 <= 15, ChannelId::A32(x) => x.0 <= 31 } }
