// C02: specification of an Alpha16 ADC v3 packet, written from the property statement and the layout
// table of the module documentation (big endian).  Mathematical integers throughout.

pub uninterp spec fn alpha16_known_mac(m: Seq<u8>) -> bool;     // membership in the documented board table (A-MAPS; Kani: complete)

pub open spec fn footer(s: Seq<u8>) -> u16 { be16(s, s.len() - 4) as u16 }
pub open spec fn keep_last(s: Seq<u8>) -> int { (footer(s) & 0xFFF) as int }
pub open spec fn keep_bit(s: Seq<u8>) -> bool { (footer(s) >> 12) & 1 == 1 }
pub open spec fn supp(s: Seq<u8>) -> bool { (footer(s) >> 13) & 1 == 1 }
pub open spec fn floor_div64(x: int) -> int { x / 64 }
pub open spec fn wave(s: Seq<u8>) -> Seq<i16> { Seq::new(((s.len() - 36) / 2) as nat, |i: int| bei16(s, 32 + 2 * i) as i16) }
pub open spec fn sum64(w: Seq<i16>, n: int) -> int decreases n { if n <= 0 { 0 } else { sum64(w, n - 1) + w[n - 1] as int } }

pub proof fn lemma_sum_ext(a: Seq<i16>, b: Seq<i16>, n: int)
    requires 0 <= n <= a.len(), n <= b.len(), forall|i: int| 0 <= i < n ==> a[i] == b[i]
    ensures sum64(a, n) == sum64(b, n)
    decreases n
{ if n > 0 { lemma_sum_ext(a, b, n - 1); } }

pub proof fn lemma_sum_bounds(a: Seq<i16>, n: int)
    requires 0 <= n <= a.len()
    ensures -32768 * n <= sum64(a, n) <= 32767 * n
    decreases n
{ if n > 0 { lemma_sum_bounds(a, n - 1); } }

pub open spec fn adc_ok(s: Seq<u8>) -> bool {
    &&& s.len() >= 16
    &&& s[0] == 1 && s[1] == 3 && s[4] <= 7
    &&& (s[5] <= 15 || 128 <= s[5] <= 159)
    &&& if s.len() == 16 { supp(s) && !keep_bit(s) && keep_last(s) == 0 } else {
        let n = (s.len() - 36) / 2;
        let req = be16(s, 6);
        let last_index = (keep_last(s) - 1) * 2 - 2;
        &&& s.len() >= 36
        &&& s.subrange(12, 14) == seq![0u8, 0u8]
        &&& alpha16_known_mac(s.subrange(14, 20))
        &&& (s.len() - 36) % 2 == 0
        &&& n >= 64
        &&& bei16(s, s.len() - 2) == floor_div64(sum64(wave(s), 64))
        &&& if supp(s) { keep_bit(s) && keep_last(s) >= 34 && n > last_index && n <= req - 2 }
            else { (keep_bit(s) ==> keep_last(s) >= 34 && n > last_index) && (!keep_bit(s) ==> keep_last(s) == 0) && n == req - 2 }
    }
}

// every accessor value as a function of the input bytes
pub open spec fn adc_fields(p: AdcV3Packet, s: Seq<u8>) -> bool {
    &&& p.accepted_trigger as int == be16(s, 2)
    &&& p.module_id.0 == s[4]
    &&& (s[5] < 128 ==> p.channel_id == ChannelId::A16(Adc16ChannelId(s[5])))
    &&& (s[5] >= 128 ==> p.channel_id == ChannelId::A32(Adc32ChannelId((s[5] - 128) as u8)))
    &&& p.requested_samples as int == be16(s, 6)
    &&& p.suppression_baseline as int == bei16(s, s.len() - 2)
    &&& p.keep_last as int == keep_last(s)
    &&& p.keep_bit == keep_bit(s)
    &&& p.suppression_enabled == supp(s)
    &&& if s.len() == 16 {
            &&& p.event_timestamp as int == be32(s, 8)
            &&& p.board_id.is_none() && p.trigger_offset.is_none() && p.build_timestamp.is_none()
            &&& p.waveform@.len() == 0
        } else {
            &&& p.event_timestamp as int == be32(s, 20) * 0x1_0000_0000 + be32(s, 8)
            &&& p.board_id matches Some(b) && b.mac_address@ == s.subrange(14, 20)
            &&& p.trigger_offset matches Some(t) && t as int == bei32(s, 24)
            &&& p.build_timestamp matches Some(t) && t as int == be32(s, 28)
            &&& p.waveform@ =~= wave(s)
        }
}

// invariant used by event assembly (C09): a packet with samples knows its board
pub open spec fn wf_adc(p: AdcV3Packet) -> bool { p.waveform@.len() > 0 ==> p.board_id.is_some() }

// ... and its channel id is in range (needed by the wire map look-up of event assembly, C10)
pub open spec fn chan_wf(c: ChannelId) -> bool { match c { ChannelId::A16(x) => x.0 <= 15, ChannelId::A32(x) => x.0 <= 31 } }
