// Opaque stand-ins for the uom::si::f64 quantities used by the physics crate.  Floats are not reasoned about: comparison and
// arithmetic are uninterpreted functions attached to external_body operator impls, so that the real bodies type-check unchanged
// and every proved statement is about control flow and about which terms are built, never about float values.

use core::cmp::Ordering;
use vstd::std_specs::cmp::*;
use vstd::std_specs::ops::*;

#[verifier::external_body] #[derive(Clone, Copy, Debug)] pub struct Time { v: f64 }
#[verifier::external_body] #[derive(Clone, Copy, Debug)] pub struct Length { v: f64 }
#[verifier::external_body] #[derive(Clone, Copy, Debug)] pub struct Angle { v: f64 }
#[verifier::external_body] #[derive(Clone, Copy, Debug)] pub struct Ratio { v: f64 }

pub uninterp spec fn time_cmp(a: Time, b: Time) -> Option<Ordering>;
pub uninterp spec fn len_cmp(a: Length, b: Length) -> Option<Ordering>;
pub uninterp spec fn angle_cmp(a: Angle, b: Angle) -> Option<Ordering>;
pub uninterp spec fn time_nan(a: Time) -> bool;
pub uninterp spec fn len_nan(a: Length) -> bool;
pub uninterp spec fn time_sub(a: Time, b: Time) -> Time;
pub uninterp spec fn time_div(a: Time, b: Time) -> Ratio;
pub uninterp spec fn len_sub(a: Length, b: Length) -> Length;
pub uninterp spec fn len_add(a: Length, b: Length) -> Length;
pub uninterp spec fn len_abs(a: Length) -> Length;
pub uninterp spec fn ratio_mul_len(a: Ratio, b: Length) -> Length;
pub uninterp spec fn angle_sub(a: Angle, b: Angle) -> Angle;
pub uninterp spec fn angle_add(a: Angle, b: Angle) -> Angle;
pub uninterp spec fn ratio_mul_angle(a: Ratio, b: Angle) -> Ratio;
pub uninterp spec fn angle_from_ratio(a: Ratio) -> Angle;

// IEEE-754 comparison facts (trusted): partial_cmp is None exactly when an operand is NaN, swapping the operands reverses the
// result, and |x| is NaN only if x is.
pub open spec fn flip(o: Option<Ordering>) -> Option<Ordering> {
    match o { Some(Ordering::Less) => Some(Ordering::Greater), Some(Ordering::Greater) => Some(Ordering::Less), x => x }
}
#[verifier::external_body]
pub broadcast proof fn axiom_time_cmp(a: Time, b: Time)
    ensures #[trigger] time_cmp(a, b) == flip(time_cmp(b, a)), time_cmp(a, b).is_none() == (time_nan(a) || time_nan(b)) {}
#[verifier::external_body]
pub broadcast proof fn axiom_len_cmp(a: Length, b: Length)
    ensures #[trigger] len_cmp(a, b) == flip(len_cmp(b, a)), len_cmp(a, b).is_none() == (len_nan(a) || len_nan(b)) {}
#[verifier::external_body]
pub broadcast proof fn axiom_len_abs_nan(a: Length)
    ensures #[trigger] len_nan(len_abs(a)) == len_nan(a) {}

pub open spec fn t_lt(a: Time, b: Time) -> bool { time_cmp(a, b) == Some(Ordering::Less) }
pub open spec fn t_gt(a: Time, b: Time) -> bool { time_cmp(a, b) == Some(Ordering::Greater) }
pub open spec fn t_le(a: Time, b: Time) -> bool { time_cmp(a, b) == Some(Ordering::Less) || time_cmp(a, b) == Some(Ordering::Equal) }
pub open spec fn l_gt(a: Length, b: Length) -> bool { len_cmp(a, b) == Some(Ordering::Greater) }
pub open spec fn l_le(a: Length, b: Length) -> bool { len_cmp(a, b) == Some(Ordering::Less) || len_cmp(a, b) == Some(Ordering::Equal) }
pub open spec fn l_ge(a: Length, b: Length) -> bool { len_cmp(a, b) == Some(Ordering::Greater) || len_cmp(a, b) == Some(Ordering::Equal) }

macro_rules! opaque_cmp { ($T:ident, $cmp:ident) => { verus! {
impl PartialEq for $T { #[verifier::external_body] fn eq(&self, o: &$T) -> bool { self.v == o.v } }
impl PartialOrd for $T { #[verifier::external_body] fn partial_cmp(&self, o: &$T) -> Option<Ordering> { self.v.partial_cmp(&o.v) } }
impl PartialEqSpecImpl for $T {
    open spec fn obeys_eq_spec() -> bool { true }
    open spec fn eq_spec(&self, o: &$T) -> bool { $cmp(*self, *o) == Some(Ordering::Equal) }
}
impl PartialOrdSpecImpl for $T {
    open spec fn obeys_partial_cmp_spec() -> bool { true }
    open spec fn partial_cmp_spec(&self, o: &$T) -> Option<Ordering> { $cmp(*self, *o) }
}
} } }
opaque_cmp!(Time, time_cmp);
opaque_cmp!(Length, len_cmp);
opaque_cmp!(Angle, angle_cmp);

macro_rules! opaque_op { ($Tr:ident, $SpecTr:ident, $m:ident, $obeys:ident, $req:ident, $spec:ident, $A:ident, $B:ident, $O:ident, $f:ident) => { verus! {
impl core::ops::$Tr<$B> for $A { type Output = $O; #[verifier::external_body] fn $m(self, o: $B) -> $O { unimplemented!() } }
impl $SpecTr<$B> for $A {
    open spec fn $obeys() -> bool { true }
    open spec fn $req(self, o: $B) -> bool { true }
    open spec fn $spec(self, o: $B) -> $O { $f(self, o) }
}
} } }
opaque_op!(Sub, SubSpecImpl, sub, obeys_sub_spec, sub_req, sub_spec, Time, Time, Time, time_sub);
opaque_op!(Div, DivSpecImpl, div, obeys_div_spec, div_req, div_spec, Time, Time, Ratio, time_div);
opaque_op!(Sub, SubSpecImpl, sub, obeys_sub_spec, sub_req, sub_spec, Length, Length, Length, len_sub);
opaque_op!(Add, AddSpecImpl, add, obeys_add_spec, add_req, add_spec, Length, Length, Length, len_add);
opaque_op!(Mul, MulSpecImpl, mul, obeys_mul_spec, mul_req, mul_spec, Ratio, Length, Length, ratio_mul_len);
opaque_op!(Sub, SubSpecImpl, sub, obeys_sub_spec, sub_req, sub_spec, Angle, Angle, Angle, angle_sub);
opaque_op!(Add, AddSpecImpl, add, obeys_add_spec, add_req, add_spec, Angle, Angle, Angle, angle_add);
opaque_op!(Mul, MulSpecImpl, mul, obeys_mul_spec, mul_req, mul_spec, Ratio, Angle, Ratio, ratio_mul_angle);

impl Length {
    #[verifier::external_body]
    pub fn abs(self) -> (r: Length) ensures r == len_abs(self) { unimplemented!() }
}
impl From<Ratio> for Angle { #[verifier::external_body] fn from(x: Ratio) -> (r: Angle) ensures r == angle_from_ratio(x) { unimplemented!() } }


// the reflexive conversion used by `?` when no error conversion takes place (core: `impl<T> From<T> for T { fn from(t) -> T { t } }`)
pub assume_specification<T> [ <T as core::convert::From<T>>::from ] (t: T) -> (r: T)
    ensures r == t;
