// C03: specification of a PadWing chunk, from the property statement and the module documentation (little endian).

pub uninterp spec fn crc(s: Seq<u8>) -> u32;                 // A-CRC-FN: crc32c::crc32c is a pure function of its argument
pub uninterp spec fn pwb_known_device(d: u32) -> bool;       // membership in the documented PadWing board table (A-MAPS; Kani: complete)

pub open spec fn all_zero(s: Seq<u8>) -> bool { forall|i: int| 0 <= i < s.len() ==> s[i] == 0 }

pub open spec fn chunk_ok(s: Seq<u8>) -> bool {
    &&& s.len() >= 28 && s.len() % 4 == 0
    &&& pwb_known_device(le32(s, 0))
    &&& s[10] <= 3 && s[11] <= 1
    &&& s.len() - 27 <= le16(s, 14) <= s.len() - 24
    &&& le32(s, 16) == !crc(s.subrange(0, 16))
    &&& all_zero(s.subrange(20 + le16(s, 14) as int, s.len() - 4))
    &&& le32(s, s.len() - 4) == !crc(s.subrange(20, s.len() - 4))
}

pub open spec fn chunk_fields(c: Chunk, s: Seq<u8>) -> bool {
    &&& c.device_id == le32(s, 0)
    &&& c.packet_sequence == le32(s, 4)
    &&& c.channel_sequence == le16(s, 8)
    &&& c.channel_id == s[10]
    &&& c.flags == s[11]
    &&& c.chunk_id == le16(s, 12)
    &&& c.payload@ =~= s.subrange(20, 20 + le16(s, 14) as int)
}

// constructor invariant of Chunk: what the accessors' unwraps rely on
pub open spec fn wf_chunk(c: Chunk) -> bool {
    &&& pwb_known_device(c.device_id)
    &&& c.channel_id <= 3
    &&& c.flags <= 1
    &&& c.payload@.len() <= 0xFFFF
}

// the 16 header bytes a chunk was decoded from, rebuilt from its fields
pub open spec fn header_bytes(c: Chunk) -> Seq<u8> {
    vstd::bytes::spec_u32_to_le_bytes(c.device_id) + vstd::bytes::spec_u32_to_le_bytes(c.packet_sequence)
        + vstd::bytes::spec_u16_to_le_bytes(c.channel_sequence) + seq![c.channel_id] + seq![c.flags]
        + vstd::bytes::spec_u16_to_le_bytes(c.chunk_id) + vstd::bytes::spec_u16_to_le_bytes(c.payload@.len() as u16)
}
pub open spec fn pad_len(n: int) -> int { if n % 4 == 0 { 0 } else { 4 - n % 4 } }
pub open spec fn padded_payload(c: Chunk) -> Seq<u8> { c.payload@ + Seq::new(pad_len(c.payload@.len() as int) as nat, |i: int| 0u8) }

#[verifier::external_body]
pub fn ext_crc32c(d: &[u8]) -> (r: u32) ensures r == crc(d@) { unimplemented!() /* crc32c::crc32c(d): the crate cannot be linked into a single-file Verus run */ }

pub assume_specification<T: Clone> [ <[T]>::to_vec ] (s: &[T]) -> (r: Vec<T>)
    ensures r@ == s@;

// ---- coverage lemma (C03 "both CRC words bind every accepted byte"): for an accepted slice every index lies in
// exactly one of header data [0,16), header CRC [16,20), payload+padding [20,len-4), payload CRC [len-4,len),
// the two CRC words are taken over exactly the first and third region, and the regions depend on len only.
pub proof fn lemma_chunk_coverage(s: Seq<u8>, i: int)
    requires chunk_ok(s), 0 <= i < s.len()
    ensures
        (0 <= i < 16) || (16 <= i < 20) || (20 <= i < s.len() - 4) || (s.len() - 4 <= i < s.len()),
        !((0 <= i < 16) && (16 <= i < 20)), !((16 <= i < 20) && (20 <= i < s.len() - 4)), !((20 <= i < s.len() - 4) && (s.len() - 4 <= i)),
        0 <= i < 16 ==> s.subrange(0, 16)[i] == s[i],
        20 <= i < s.len() - 4 ==> s.subrange(20, s.len() - 4)[i - 20] == s[i],
{
}

// A-CRC-HD (assumed, literature): for equal-length messages m != m' the codewords (m, !crc(m)) and (m', !crc(m'))
// differ in at least 4 bit positions and not by a single burst of <= 32 bits.  Stated over a bit-distance function.
pub uninterp spec fn bit_distance(a: Seq<u8>, b: Seq<u8>) -> nat;       // Hamming distance in bits of equal-length byte strings
pub uninterp spec fn burst_span(a: Seq<u8>, b: Seq<u8>) -> nat;         // length in bits of the shortest window containing all differing bits
