// C03: specification of a PadWing chunk, from the property statement and the module documentation (little endian).

pub uninterp spec fn crc(s: Seq<u8>) -> u32;                 // A-CRC-FN: crc32c::crc32c is a pure function of its argument
pub uninterp spec fn pwb_known_device(d: u32) -> bool;       // membership in the documented PadWing board table (A-MAPS; Kani: complete)

pub uninterp spec fn pwb_board_of(d: u32) -> BoardId;         // the table row of a device id: BoardId::try_from(u32) is a pure function (A-MAPS)
// derived `PartialEq` of BoardId (name, MAC, device id) is structural equality; BoardId holds a `&'static str`, so Verus cannot derive it
pub assume_specification [ <BoardId as core::cmp::PartialEq>::eq ] (a: &BoardId, b: &BoardId) -> (r: bool)
    ensures r == (*a == *b);

pub open spec fn all_zero(s: Seq<u8>) -> bool { forall|i: int| 0 <= i < s.len() ==> s[i] == 0 }

pub open spec fn chunk_ok(s: Seq<u8>) -> bool {
    &&& s.len() >= 28 && s.len() % 4 == 0
    &&& pwb_known_device(le32(s, 0))
    &&& s[10] <= 3 && s[11] <= 1
    &&& s.len() - 27 <= le16(s, 14) <= s.len() - 24
    &&& le32(s, 16) == !crc(s.subrange(0, 16))
    &&& all_zero(s.subrange(20 + le16(s, 14) as int, s.len() - 4))
    &&& le32(s, s.len() - 4) == !crc(s.subrange(20, s.len() - 4))
}

pub open spec fn chunk_fields(c: Chunk, s: Seq<u8>) -> bool {
    &&& c.device_id == le32(s, 0)
    &&& c.packet_sequence == le32(s, 4)
    &&& c.channel_sequence == le16(s, 8)
    &&& c.channel_id == s[10]
    &&& c.flags == s[11]
    &&& c.chunk_id == le16(s, 12)
    &&& c.payload@ =~= s.subrange(20, 20 + le16(s, 14) as int)
}

// constructor invariant of Chunk: what the accessors' unwraps rely on
pub open spec fn wf_chunk(c: Chunk) -> bool {
    &&& pwb_known_device(c.device_id)
    &&& c.channel_id <= 3
    &&& c.flags <= 1
    &&& c.payload@.len() <= 0xFFFF
}

// the 16 header bytes a chunk was decoded from, rebuilt from its fields
pub open spec fn header_bytes(c: Chunk) -> Seq<u8> {
    vstd::bytes::spec_u32_to_le_bytes(c.device_id) + vstd::bytes::spec_u32_to_le_bytes(c.packet_sequence)
        + vstd::bytes::spec_u16_to_le_bytes(c.channel_sequence) + seq![c.channel_id] + seq![c.flags]
        + vstd::bytes::spec_u16_to_le_bytes(c.chunk_id) + vstd::bytes::spec_u16_to_le_bytes(c.payload@.len() as u16)
}
pub open spec fn pad_len(n: int) -> int { if n % 4 == 0 { 0 } else { 4 - n % 4 } }
pub open spec fn padded_payload(c: Chunk) -> Seq<u8> { c.payload@ + Seq::new(pad_len(c.payload@.len() as int) as nat, |i: int| 0u8) }

#[verifier::external_body]
pub fn ext_crc32c(d: &[u8]) -> (r: u32) ensures r == crc(d@) { unimplemented!() /* crc32c::crc32c(d): the crate cannot be linked into a single-file Verus run */ }

pub assume_specification<T: Clone> [ <[T]>::to_vec ] (s: &[T]) -> (r: Vec<T>)
    ensures r@ == s@;

// ---- coverage lemma (C03 "both CRC words bind every accepted byte"): for an accepted slice every index lies in
// exactly one of header data [0,16), header CRC [16,20), payload+padding [20,len-4), payload CRC [len-4,len),
// the two CRC words are taken over exactly the first and third region, and the regions depend on len only.
pub proof fn lemma_chunk_coverage(s: Seq<u8>, i: int)
    requires chunk_ok(s), 0 <= i < s.len()
    ensures
        (0 <= i < 16) || (16 <= i < 20) || (20 <= i < s.len() - 4) || (s.len() - 4 <= i < s.len()),
        !((0 <= i < 16) && (16 <= i < 20)), !((16 <= i < 20) && (20 <= i < s.len() - 4)), !((20 <= i < s.len() - 4) && (s.len() - 4 <= i)),
        0 <= i < 16 ==> s.subrange(0, 16)[i] == s[i],
        20 <= i < s.len() - 4 ==> s.subrange(20, s.len() - 4)[i - 20] == s[i],
{
}

// ---- flip rejection (C03): changing 1..3 bits, or any burst of <= 32 contiguous bits, of an accepted chunk yields a rejection.
// Derived from chunk_ok (the contract of Chunk::try_from) and ONE assumed fact about the CRC-32C code, A-CRC-HD.
pub open spec fn bit_at(s: Seq<u8>, i: int) -> bool { (s[i / 8] >> ((i % 8) as u8)) & 1 == 1 }      // memory order, LSB first
pub open spec fn differs_at(a: Seq<u8>, b: Seq<u8>, i: int) -> bool { 0 <= i < 8 * a.len() && bit_at(a, i) != bit_at(b, i) }
pub open spec fn ge4_diff(a: Seq<u8>, b: Seq<u8>) -> bool {
    exists|i: int, j: int, k: int, l: int| i < j < k < l && #[trigger] differs_at(a, b, i) && #[trigger] differs_at(a, b, j) && #[trigger] differs_at(a, b, k) && #[trigger] differs_at(a, b, l)
}
pub open spec fn burst_at(a: Seq<u8>, b: Seq<u8>, p: int) -> bool { forall|i: int| #[trigger] differs_at(a, b, i) ==> p <= i < p + 32 }
pub open spec fn within_burst32(a: Seq<u8>, b: Seq<u8>) -> bool { exists|p: int| #[trigger] burst_at(a, b, p) }
// message followed by its stored check word (inverted CRC-32C, little endian), as laid out in a chunk
pub open spec fn codeword(m: Seq<u8>) -> Seq<u8> { m + vstd::bytes::spec_u32_to_le_bytes(!crc(m)) }

// A-CRC-HD (ASSUMED, literature: Castagnoli et al. 1993; Koopman 2002): for equal-length messages of at most 2^31-33 bits, two
// distinct CRC-32C codewords differ in at least 4 bit positions (Hamming distance >= 4) and never by a single burst of <= 32 bits.
#[verifier::external_body]
pub proof fn axiom_crc32c_hd(m1: Seq<u8>, m2: Seq<u8>)
    requires m1.len() == m2.len(), m1.len() <= 0x1000_0000, m1 != m2
    ensures ge4_diff(codeword(m1), codeword(m2)), !within_burst32(codeword(m1), codeword(m2))
{
}

proof fn lemma_region_is_codeword(s: Seq<u8>, a: int, b: int)
    requires 0 <= a <= b, b + 4 <= s.len(), le32(s, b) == !crc(s.subrange(a, b))
    ensures s.subrange(a, b + 4) == codeword(s.subrange(a, b))
{
    vstd::bytes::lemma_auto_spec_u32_to_from_le_bytes();
    let w = s.subrange(b, b + 4);
    assert(w.len() == 4);
    assert(vstd::bytes::spec_u32_to_le_bytes(vstd::bytes::spec_u32_from_le_bytes(w)) == w);
    assert(s.subrange(a, b + 4) =~= s.subrange(a, b) + w);
}
proof fn lemma_bit_shift(s: Seq<u8>, a: int, b: int, i: int)
    requires 0 <= a <= b <= s.len(), 0 <= i < 8 * (b - a)
    ensures bit_at(s.subrange(a, b), i) == bit_at(s, i + 8 * a)
{
    assert((i + 8 * a) / 8 == i / 8 + a);
    assert((i + 8 * a) % 8 == i % 8);
}
// differences inside a region are differences of the whole slice, at the shifted position
proof fn lemma_region_diff(s: Seq<u8>, t: Seq<u8>, a: int, b: int)
    requires s.len() == t.len(), 0 <= a <= b <= s.len()
    ensures
        forall|i: int| #[trigger] differs_at(s.subrange(a, b), t.subrange(a, b), i) ==> differs_at(s, t, i + 8 * a),
        forall|i: int| 8 * a <= i < 8 * b && #[trigger] differs_at(s, t, i) ==> differs_at(s.subrange(a, b), t.subrange(a, b), i - 8 * a),
{
    assert forall|i: int| #[trigger] differs_at(s.subrange(a, b), t.subrange(a, b), i) implies differs_at(s, t, i + 8 * a) by {
        lemma_bit_shift(s, a, b, i);
        lemma_bit_shift(t, a, b, i);
    }
    assert forall|i: int| 8 * a <= i < 8 * b && #[trigger] differs_at(s, t, i) implies differs_at(s.subrange(a, b), t.subrange(a, b), i - 8 * a) by {
        lemma_bit_shift(s, a, b, i - 8 * a);
        lemma_bit_shift(t, a, b, i - 8 * a);
    }
}
proof fn lemma_region_contradiction(s: Seq<u8>, t: Seq<u8>, a: int, b: int)
    requires
        s.len() == t.len(), 0 <= a <= b, b + 4 <= s.len(), b - a <= 0x1000_0000,
        le32(s, b) == !crc(s.subrange(a, b)), le32(t, b) == !crc(t.subrange(a, b)),
        s.subrange(a, b + 4) != t.subrange(a, b + 4),
        !ge4_diff(s, t) || within_burst32(s, t),
    ensures false
{
    let (m1, m2) = (s.subrange(a, b), t.subrange(a, b));
    lemma_region_is_codeword(s, a, b);
    lemma_region_is_codeword(t, a, b);
    if m1 == m2 { assert(false); }
    axiom_crc32c_hd(m1, m2);
    let (w1, w2) = (s.subrange(a, b + 4), t.subrange(a, b + 4));
    lemma_region_diff(s, t, a, b + 4);
    if within_burst32(s, t) {
        let p = choose|p: int| #[trigger] burst_at(s, t, p);
        assert forall|i: int| #[trigger] differs_at(w1, w2, i) implies p - 8 * a <= i < p - 8 * a + 32 by {
            assert(differs_at(s, t, i + 8 * a));
        }
        assert(burst_at(w1, w2, p - 8 * a));
        assert(within_burst32(w1, w2));
    } else {
        let (i, j, k, l) = choose|i: int, j: int, k: int, l: int| i < j < k < l && #[trigger] differs_at(w1, w2, i) && #[trigger] differs_at(w1, w2, j) && #[trigger] differs_at(w1, w2, k) && #[trigger] differs_at(w1, w2, l);
        assert(differs_at(s, t, i + 8 * a) && differs_at(s, t, j + 8 * a) && differs_at(s, t, k + 8 * a) && differs_at(s, t, l + 8 * a));
        assert(ge4_diff(s, t));
    }
}
// The C03 claim: an accepted chunk `s` and a same-length, different slice `t` that differs from it in at most 3 bit positions,
// or only inside a window of 32 contiguous bits, cannot both be accepted.
pub proof fn lemma_flip_rejected(s: Seq<u8>, t: Seq<u8>)
    requires chunk_ok(s), t.len() == s.len(), t != s, s.len() <= 0x1000_0000, !ge4_diff(s, t) || within_burst32(s, t)
    ensures !chunk_ok(t)
{
    if chunk_ok(t) {
        let n = s.len() as int;
        if s.subrange(0, 20) != t.subrange(0, 20) {
            lemma_region_contradiction(s, t, 0, 16);
        } else if s.subrange(20, n) != t.subrange(20, n) {
            lemma_region_contradiction(s, t, 20, n - 4);
        } else {
            assert(s =~= s.subrange(0, 20) + s.subrange(20, n));
            assert(t =~= t.subrange(0, 20) + t.subrange(20, n));
            assert(false);
        }
    }
}

// ---- re-encoding (C03): an accepted chunk re-encodes, from its decoded fields, to exactly the bytes it was decoded from
pub open spec fn encode_chunk(c: Chunk) -> Seq<u8> { codeword(header_bytes(c)) + codeword(padded_payload(c)) }
pub proof fn lemma_chunk_reencode(c: Chunk, s: Seq<u8>)
    requires chunk_ok(s), chunk_fields(c, s)
    ensures encode_chunk(c) == s
{
    vstd::bytes::lemma_auto_spec_u32_to_from_le_bytes();
    vstd::bytes::lemma_auto_spec_u16_to_from_le_bytes();
    let n = s.len() as int;
    let l = le16(s, 14) as int;
    assert(c.payload@.len() == l);
    assert(vstd::bytes::spec_u32_to_le_bytes(c.device_id) == s.subrange(0, 4));
    assert(vstd::bytes::spec_u32_to_le_bytes(c.packet_sequence) == s.subrange(4, 8));
    assert(vstd::bytes::spec_u16_to_le_bytes(c.channel_sequence) == s.subrange(8, 10));
    assert(vstd::bytes::spec_u16_to_le_bytes(c.chunk_id) == s.subrange(12, 14));
    assert(vstd::bytes::spec_u16_to_le_bytes(c.payload@.len() as u16) == s.subrange(14, 16));
    assert(header_bytes(c) =~= s.subrange(0, 16));
    assert(pad_len(l) == n - 24 - l);
    let pad = Seq::new(pad_len(l) as nat, |i: int| 0u8);
    assert(pad =~= s.subrange(20 + l, n - 4)) by {
        assert forall|i: int| 0 <= i < pad.len() implies pad[i] == s.subrange(20 + l, n - 4)[i] by {}
    }
    assert(padded_payload(c) =~= s.subrange(20, n - 4));
    lemma_region_is_codeword(s, 0, 16);
    lemma_region_is_codeword(s, 20, n - 4);
    assert(s =~= s.subrange(0, 20) + s.subrange(20, n));
}
