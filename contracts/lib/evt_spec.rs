// C10: the anode-wire arm of MainEvent::try_from_banks (physics/src/lib.rs), cut out of the loop body.
// Error payloads of the other arms (pads, TRG, bank names) are opaque placeholders: the wire arm never builds or inspects them.
// module paths used by the /repo text (`crate::alpha16::BoardId`, `alpha16::ChannelId::A32`): the unit is flat
pub mod alpha16 { pub use super::BoardId; pub use super::ChannelId; pub use super::Adc32ChannelId; }

#[verifier::external_body] #[derive(Debug)] pub struct ParseMainEventBankNameError { _p: u8 }
#[verifier::external_body] #[derive(Debug)] pub struct TryChunkFromSliceError { _p: u8 }
#[verifier::external_body] #[derive(Debug)] pub struct TryPwbPacketFromChunksError { _p: u8 }
#[verifier::external_body] #[derive(Debug)] pub struct TryTrgPacketFromSliceError { _p: u8 }
#[verifier::external_body] #[derive(Debug)] pub struct MapTpcPadPositionError { _p: u8 }
#[verifier::external_body] #[derive(Debug)] pub struct MapPadBaselineError { _p: u8 }
#[verifier::external_body] #[derive(Debug)] pub struct MapPadDelayError { _p: u8 }
#[verifier::external_body] #[derive(Debug)] pub struct MapPadGainError { _p: u8 }
#[verifier::external_body] #[derive(Debug)] pub struct TpcPadPosition { _p: u8 }
#[verifier::external_body] #[derive(Debug)] pub struct PwbBoardId { _p: u8 }

// calibration tables (lazy_static HashMaps keyed by wire): opaque, a function of (run number, wire)
pub uninterp spec fn wire_baseline_table(run: u32, w: TpcWirePosition) -> Result<i16, MapWireBaselineError>;
pub uninterp spec fn wire_gain_table(run: u32, w: TpcWirePosition) -> Result<f64, MapWireGainError>;
pub open spec fn wire_delay_spec(run: u32) -> Result<usize, MapWireDelayError> {
    if run == 0xFFFF_FFFF { Ok(100usize) } else if run >= 7000 { Ok(129usize) } else { Err(MapWireDelayError::MissingMap { run_number: run }) }
}
// waveform.iter().skip(delay).map(|&v| f64::from(i32::from(v) - i32::from(baseline)) * gain).collect(): float arithmetic, opaque;
// its integer part is proved exact by the Kani harness cal_wire_complete
pub uninterp spec fn calibrated(w: Seq<i16>, delay: usize, baseline: i16, gain: f64) -> Seq<f64>;

pub open spec fn slots_same(a: Seq<Option<Vec<f64>>>, b: Seq<Option<Vec<f64>>>) -> bool { a =~= b }
pub open spec fn v3(p: AdcPacket) -> AdcV3Packet { match p { AdcPacket::V3(q) => q } }

// What the statement of C10 says about one anode-wire bank whose payload decoded to `p`; `seen[w]` = an earlier bank of this event
// was accepted for wire w (whether or not it left samples to store).
pub enum WireOutcome {
    Ignored,                                                  // no samples: nothing happens
    Rejected(TryMainEventFromDataBanksError),
    Stored { wire: int, delay: usize, baseline: i16, gain: f64 },   // calibrated waveform goes to this slot (if not empty after the delay)
}
pub open spec fn wire_outcome(run: u32, name: Adc32BankName, p: AdcV3Packet, seen: Seq<bool>) -> WireOutcome {
    if p.waveform@.len() == 0 { WireOutcome::Ignored }
    else { match p.channel_id {
        ChannelId::A16(_) => WireOutcome::Rejected(TryMainEventFromDataBanksError::WireBankWithBvChannel { bank_name: name }),
        ChannelId::A32(ch) => {
            let board = p.board_id.unwrap();
            if (name.board_id, name.channel_id) != (board, ch) {
                WireOutcome::Rejected(TryMainEventFromDataBanksError::Alpha16IdMismatch { expected: (name.board_id, name.channel_id), found: (board, ch) })
            } else { match wire_lookup(run, board, ch) {
                Err(e) => WireOutcome::Rejected(TryMainEventFromDataBanksError::WirePositionError(e)),
                Ok(w) => {
                    if seen[w.0 as int] { WireOutcome::Rejected(TryMainEventFromDataBanksError::DuplicateWireBank { bank_name: name }) }
                    else { match wire_baseline_table(run, w) {
                        Err(e) => WireOutcome::Rejected(TryMainEventFromDataBanksError::WireBaselineError(e)),
                        Ok(baseline) => match wire_gain_table(run, w) {
                            Err(e) => WireOutcome::Rejected(TryMainEventFromDataBanksError::WireGainError(e)),
                            Ok(gain) => match wire_delay_spec(run) {
                                Err(e) => WireOutcome::Rejected(TryMainEventFromDataBanksError::WireDelayError(e)),
                                Ok(delay) => WireOutcome::Stored { wire: w.0 as int, delay, baseline, gain },
                            },
                        },
                    } }
                }
            } }
        }
    } }
}

// derived `PartialEq` of the Alpha16 BoardId (name, MAC) is structural equality; BoardId holds a `&'static str`, so Verus cannot derive it
pub assume_specification [ <BoardId as core::cmp::PartialEq>::eq ] (a: &BoardId, b: &BoardId) -> (r: bool)
    ensures r == (*a == *b);
// `(a, b) != (c, d)` on tuples: core compares component-wise with the components' PartialEq.  The only tuple comparison in this
// unit is on (BoardId, Adc32ChannelId), whose derived equalities are structural, so structural inequality is the meaning here.
pub assume_specification<U: PartialEq, T: PartialEq> [ <(U, T) as core::cmp::PartialEq>::ne ] (x: &(U, T), y: &(U, T)) -> (r: bool)
    ensures r == (*x != *y);

// Option::replace (core): stores the new value, returns what was there
pub assume_specification<T> [ Option::<T>::replace ] (o: &mut Option<T>, v: T) -> (r: Option<T>)
    ensures r == *old(o), *final(o) == Some(v);
