// C10: the anode-wire arm of MainEvent::try_from_banks (physics/src/lib.rs), cut out of the loop body.
// Error payloads of the other arms (pads, TRG, bank names) are opaque placeholders: the wire arm never builds or inspects them.
// module paths used by the /repo text (`crate::alpha16::BoardId`, `alpha16::ChannelId::A32`): the unit is flat
pub mod alpha16 { pub use super::BoardId; pub use super::ChannelId; pub use super::Adc32ChannelId; }

#[verifier::external_body] #[derive(Debug)] pub struct ParseMainEventBankNameError { _p: u8 }
#[verifier::external_body] #[derive(Debug)] pub struct TryChunkFromSliceError { _p: u8 }
#[verifier::external_body] #[derive(Debug)] pub struct TryPwbPacketFromChunksError { _p: u8 }
#[verifier::external_body] #[derive(Debug)] pub struct TryTrgPacketFromSliceError { _p: u8 }
#[verifier::external_body] #[derive(Debug)] pub struct MapTpcPadPositionError { _p: u8 }
#[verifier::external_body] #[derive(Debug)] pub struct MapPadBaselineError { _p: u8 }
#[verifier::external_body] #[derive(Debug)] pub struct MapPadDelayError { _p: u8 }
#[verifier::external_body] #[derive(Debug)] pub struct MapPadGainError { _p: u8 }
#[verifier::external_body] #[derive(Debug)] pub struct TpcPadPosition { _p: u8 }
#[verifier::external_body] #[derive(Debug)] pub struct PwbBoardId { _p: u8 }

// calibration tables (lazy_static HashMaps keyed by wire): opaque, a function of (run number, wire)
pub uninterp spec fn wire_baseline_table(run: u32, w: TpcWirePosition) -> Result<i16, MapWireBaselineError>;
pub uninterp spec fn wire_gain_table(run: u32, w: TpcWirePosition) -> Result<f64, MapWireGainError>;
pub open spec fn wire_delay_spec(run: u32) -> Result<usize, MapWireDelayError> {
    if run == 0xFFFF_FFFF { Ok(100usize) } else if run >= 7000 { Ok(129usize) } else { Err(MapWireDelayError::MissingMap { run_number: run }) }
}
// waveform.iter().skip(delay).map(|&v| f64::from(i32::from(v) - i32::from(baseline)) * gain).collect(): float arithmetic, opaque;
// its integer part is proved exact by the Kani harness cal_wire_complete
// (raw - baseline) * gain for one sample: the difference is exact integer arithmetic (verified in the body, no overflow); the
// conversion to f64 and the product are floating point and stay opaque
pub uninterp spec fn scale(d: i32, gain: f64) -> f64;
#[verifier::external_body]
pub fn lift_scale(d: i32, gain: f64) -> (r: f64) ensures r == scale(d, gain) { unimplemented!() }
// the calibrated waveform: the first `delay` samples removed, every remaining sample, in order, as scale(raw - baseline, gain)
pub open spec fn calibrated(w: Seq<i16>, delay: usize, baseline: i16, gain: f64) -> Seq<f64> {
    Seq::new((if delay <= w.len() { w.len() - delay } else { 0 }) as nat, |i: int| scale((w[delay + i] as i32 - baseline as i32) as i32, gain))
}

pub open spec fn slots_same(a: Seq<Option<Vec<f64>>>, b: Seq<Option<Vec<f64>>>) -> bool { a =~= b }
pub open spec fn v3(p: AdcPacket) -> AdcV3Packet { match p { AdcPacket::V3(q) => q } }

// What the statement of C10 says about one anode-wire bank whose payload decoded to `p`; `seen[w]` = an earlier bank of this event
// was accepted for wire w (whether or not it left samples to store).
pub enum WireOutcome {
    Ignored,                                                  // no samples: nothing happens
    Rejected(TryMainEventFromDataBanksError),
    Stored { wire: int, delay: usize, baseline: i16, gain: f64 },   // calibrated waveform goes to this slot (if not empty after the delay)
}
pub open spec fn wire_outcome(run: u32, name: Adc32BankName, p: AdcV3Packet, seen: Seq<bool>) -> WireOutcome {
    if p.waveform@.len() == 0 { WireOutcome::Ignored }
    else { match p.channel_id {
        ChannelId::A16(_) => WireOutcome::Rejected(TryMainEventFromDataBanksError::WireBankWithBvChannel { bank_name: name }),
        ChannelId::A32(ch) => {
            let board = p.board_id.unwrap();
            if (name.board_id, name.channel_id) != (board, ch) {
                WireOutcome::Rejected(TryMainEventFromDataBanksError::Alpha16IdMismatch { expected: (name.board_id, name.channel_id), found: (board, ch) })
            } else { match wire_lookup(run, board, ch) {
                Err(e) => WireOutcome::Rejected(TryMainEventFromDataBanksError::WirePositionError(e)),
                Ok(w) => {
                    if seen[w.0 as int] { WireOutcome::Rejected(TryMainEventFromDataBanksError::DuplicateWireBank { bank_name: name }) }
                    else { match wire_baseline_table(run, w) {
                        Err(e) => WireOutcome::Rejected(TryMainEventFromDataBanksError::WireBaselineError(e)),
                        Ok(baseline) => match wire_gain_table(run, w) {
                            Err(e) => WireOutcome::Rejected(TryMainEventFromDataBanksError::WireGainError(e)),
                            Ok(gain) => match wire_delay_spec(run) {
                                Err(e) => WireOutcome::Rejected(TryMainEventFromDataBanksError::WireDelayError(e)),
                                Ok(delay) => WireOutcome::Stored { wire: w.0 as int, delay, baseline, gain },
                            },
                        },
                    } }
                }
            } }
        }
    } }
}

// derived `PartialEq` of the Alpha16 BoardId (name, MAC) is structural equality; BoardId holds a `&'static str`, so Verus cannot derive it
pub assume_specification [ <BoardId as core::cmp::PartialEq>::eq ] (a: &BoardId, b: &BoardId) -> (r: bool)
    ensures r == (*a == *b);
// `(a, b) != (c, d)` on tuples: core compares component-wise with the components' PartialEq.  The only tuple comparison in this
// unit is on (BoardId, Adc32ChannelId), whose derived equalities are structural, so structural inequality is the meaning here.
pub assume_specification<U: PartialEq, T: PartialEq> [ <(U, T) as core::cmp::PartialEq>::ne ] (x: &(U, T), y: &(U, T)) -> (r: bool)
    ensures r == (*x != *y);

// Option::replace (core): stores the new value, returns what was there
pub assume_specification<T> [ Option::<T>::replace ] (o: &mut Option<T>, v: T) -> (r: Option<T>)
    ensures r == *old(o), *final(o) == Some(v);

// ---- order independence of the wire arm (the part of C11's "any permutation of the same banks succeeds or fails alike" that
// this arm is responsible for).  The state the arm works on, as plain values: what each slot holds and which wires were seen.
pub struct WireState { pub slots: Seq<Option<Seq<f64>>>, pub seen: Seq<bool> }
pub open spec fn slots_view(s: Seq<Option<Vec<f64>>>) -> Seq<Option<Seq<f64>>> {
    Seq::new(s.len(), |i: int| match s[i] { Some(v) => Some(v@), None => None })
}
// one decoded wire bank applied to a state: None = the event is rejected
pub open spec fn apply_wire(run: u32, name: Adc32BankName, p: AdcV3Packet, st: WireState) -> Option<WireState> {
    match wire_outcome(run, name, p, st.seen) {
        WireOutcome::Ignored => Some(st),
        WireOutcome::Rejected(_) => None,
        WireOutcome::Stored { wire, delay, baseline, gain } => {
            let cal = calibrated(p.waveform@, delay, baseline, gain);
            Some(WireState { slots: if cal.len() == 0 { st.slots } else { st.slots.update(wire, Some(cal)) }, seen: st.seen.update(wire, true) })
        },
    }
}
pub open spec fn wf_state(st: WireState) -> bool { st.slots.len() == 256 && st.seen.len() == 256 }
// Two banks in either order: both orders reject, or both give the same state.  (Before /repo commit fac8979 this was false: the
// duplicate rule looked at the slot, and a copy that stores nothing left no trace.)
pub proof fn lemma_wire_banks_commute(run: u32, n1: Adc32BankName, p1: AdcV3Packet, n2: Adc32BankName, p2: AdcV3Packet, st: WireState)
    requires
        wf_state(st),
        // the wire a bank goes to is a valid index (proved for the real TpcWirePosition::try_new in unit wiremap: C08.wire_index_lt_256)
        wire_outcome(run, n1, p1, st.seen) matches WireOutcome::Stored { wire, .. } ==> 0 <= wire < 256,
        wire_outcome(run, n2, p2, st.seen) matches WireOutcome::Stored { wire, .. } ==> 0 <= wire < 256,
    ensures ({
        let ab = match apply_wire(run, n1, p1, st) { Some(s1) => apply_wire(run, n2, p2, s1), None => None };
        let ba = match apply_wire(run, n2, p2, st) { Some(s2) => apply_wire(run, n1, p1, s2), None => None };
        (ab is None <==> ba is None) && (ab matches Some(x) ==> ba matches Some(y) && x.slots =~= y.slots && x.seen =~= y.seen)
    })
{
    // the wire a bank goes to, the calibration values and every rejection except "duplicate" do not depend on the state
    let o1 = wire_outcome(run, n1, p1, st.seen);
    let o2 = wire_outcome(run, n2, p2, st.seen);
    match (o1, o2) {
        (WireOutcome::Stored { wire: w1, .. }, WireOutcome::Stored { wire: w2, .. }) => {
            let s1 = apply_wire(run, n1, p1, st)->Some_0;
            let s2 = apply_wire(run, n2, p2, st)->Some_0;
            if w1 == w2 {
                assert(s1.seen[w2]);
                assert(s2.seen[w1]);
            } else {
                assert(s1.seen[w2] == st.seen[w2]);
                assert(s2.seen[w1] == st.seen[w1]);
            }
        },
        _ => {},
    }
}
