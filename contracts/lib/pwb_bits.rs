// Bit-vector facts and sequence lemmas for the two `while num != 0 { leading_zeros; push; xor }` loops of the PWB decoder.
pub assume_specification [ u128::leading_zeros ] (x: u128) -> (r: u32)
    ensures r <= 128, x != 0 ==> r <= 127 && (x >> ((127 - r) as u128)) == 1;

pub proof fn bv_top(x: u128, k: u128)
    requires k <= 127, (x >> k) == 1
    ensures (x >> k) & 1 == 1,
            x ^ (1u128 << k) == x & (((1u128 << k) - 1) as u128),
            forall|j: u128| k < j <= 127 ==> #[trigger] ((x >> j) & 1) == 0,
{
    assert((x >> k) == 1 ==> (x >> k) & 1 == 1) by (bit_vector);
    assert((x >> k) == 1 && k <= 127 ==> x ^ (1u128 << k) == x & (((1u128 << k) - 1) as u128)) by (bit_vector);
    assert forall|j: u128| k < j <= 127 implies #[trigger] ((x >> j) & 1) == 0 by {
        assert((x >> k) == 1 && k < j && j <= 127 ==> ((x >> j) & 1) == 0) by (bit_vector);
    }
}
pub proof fn bv_and_low(m: u128, top: u128, k: u128, j: u128)
    requires k <= top <= 127, j <= 127
    ensures (m & (((1u128 << top) - 1) as u128)) & (((1u128 << k) - 1) as u128) == m & (((1u128 << k) - 1) as u128),
            j < top ==> ((m & (((1u128 << top) - 1) as u128)) >> j) & 1 == (m >> j) & 1,
            (m & (((1u128 << top) - 1) as u128)) == 0 && j < top ==> (m >> j) & 1 == 0,
{
    assert(k <= top && top <= 127 ==> (m & (((1u128 << top) - 1) as u128)) & (((1u128 << k) - 1) as u128) == m & (((1u128 << k) - 1) as u128)) by (bit_vector);
    assert(j < top && top <= 127 ==> ((m & (((1u128 << top) - 1) as u128)) >> j) & 1 == (m >> j) & 1) by (bit_vector);
    assert((m & (((1u128 << top) - 1) as u128)) == 0 && j < top && top <= 127 ==> (m >> j) & 1 == 0) by (bit_vector);
}
pub proof fn bv_lt(x: u128, k: u128, top: u128)
    requires top <= 127, k <= 127, (x & (((1u128 << top) - 1) as u128)) >> k == 1
    ensures k < top
{
    assert(top <= 127 && k <= 127 && (x & (((1u128 << top) - 1) as u128)) >> k == 1 ==> k < top) by (bit_vector);
}
pub proof fn lemma_empty_below(m: u128, top: nat)
    requires top <= 127, m & low(top) == 0
    ensures set_bits_below(m, top) == Seq::<u16>::empty()
    decreases top
{
    if top > 0 {
        bv_and_low(m, top as u128, 0, (top - 1) as u128);
        bv_and_low(m, top as u128, (top - 1) as u128, 0);
        assert(m & low((top - 1) as nat) == 0) by {
            let t = top as u128; let t1 = (top - 1) as u128;
            assert(t <= 127 && t1 == t - 1 && m & (((1u128 << t) - 1) as u128) == 0 ==> m & (((1u128 << t1) - 1) as u128) == 0) by (bit_vector);
        }
        lemma_empty_below(m, (top - 1) as nat);
    }
}
pub proof fn lemma_skip_zero(m: u128, k: nat, top: nat)
    requires k < top <= 127, bit(m, k), forall|j: nat| k < j < top ==> !bit(m, j)
    ensures set_bits_below(m, top) == set_bits_below(m, k).push(k as u16)
    decreases top - k
{
    if top == k + 1 {
    } else {
        lemma_skip_zero(m, k, (top - 1) as nat);
        assert(!bit(m, (top - 1) as nat));
    }
}
// facts about set_bits_below used by callers
pub proof fn lemma_set_bits_props(m: u128, n: nat)
    requires n <= 127
    ensures set_bits_below(m, n).len() <= n,
            forall|i: int| 0 <= i < set_bits_below(m, n).len() ==> #[trigger] set_bits_below(m, n)[i] < n,
            forall|i: int, j: int| 0 <= i < j < set_bits_below(m, n).len() ==> set_bits_below(m, n)[i] < set_bits_below(m, n)[j],
    decreases n
{
    if n > 0 { lemma_set_bits_props(m, (n - 1) as nat); }
}

// ---- re-encoding (C05): decoding is injective on accepted inputs, i.e. the accessor values determine every input byte
// (equivalently: there is a re-encoding of the accessors that reproduces the input exactly)
pub open spec fn byte_at(s: Seq<u8>, i: int) -> u8 { s[i] }
pub open spec fn mask_byte(m: u128, k: int) -> u8 { ((m >> ((8 * k) as u128)) & 0xff) as u8 }
proof fn lemma_mask80_bytes(s: Seq<u8>, o: int)
    requires 0 <= o, o + 10 <= s.len()
    ensures forall|k: int| 0 <= k < 10 ==> #[trigger] byte_at(s, o + k) == mask_byte(mask80(s, o), k)
{
    let (b0, b1, b2, b3, b4, b5, b6, b7, b8, b9) = (s[o], s[o + 1], s[o + 2], s[o + 3], s[o + 4], s[o + 5], s[o + 6], s[o + 7], s[o + 8], s[o + 9]);
    let m = mask80(s, o);
    assert(m == (b0 as u128) | (b1 as u128) << 8 | (b2 as u128) << 16 | (b3 as u128) << 24 | (b4 as u128) << 32
        | (b5 as u128) << 40 | (b6 as u128) << 48 | (b7 as u128) << 56 | (b8 as u128) << 64 | (b9 as u128) << 72);
    assert(m == (b0 as u128) | (b1 as u128) << 8 | (b2 as u128) << 16 | (b3 as u128) << 24 | (b4 as u128) << 32
        | (b5 as u128) << 40 | (b6 as u128) << 48 | (b7 as u128) << 56 | (b8 as u128) << 64 | (b9 as u128) << 72 ==>
        b0 == ((m >> 0u128) & 0xff) as u8 && b1 == ((m >> 8u128) & 0xff) as u8 && b2 == ((m >> 16u128) & 0xff) as u8 && b3 == ((m >> 24u128) & 0xff) as u8
        && b4 == ((m >> 32u128) & 0xff) as u8 && b5 == ((m >> 40u128) & 0xff) as u8 && b6 == ((m >> 48u128) & 0xff) as u8 && b7 == ((m >> 56u128) & 0xff) as u8
        && b8 == ((m >> 64u128) & 0xff) as u8 && b9 == ((m >> 72u128) & 0xff) as u8) by (bit_vector);
    assert forall|k: int| 0 <= k < 10 implies #[trigger] byte_at(s, o + k) == mask_byte(m, k) by {
        if k == 0 {} else if k == 1 {} else if k == 2 {} else if k == 3 {} else if k == 4 {} else if k == 5 {} else if k == 6 {} else if k == 7 {} else if k == 8 {} else {}
    }
}
// equal ascending set-bit lists below n mean equal low n bits
proof fn lemma_set_bits_injective(m1: u128, m2: u128, n: nat)
    requires n <= 127, set_bits_below(m1, n) == set_bits_below(m2, n)
    ensures m1 & low(n) == m2 & low(n)
    decreases n
{
    if n == 0 {
        assert(m1 & (((1u128 << 0u128) - 1) as u128) == 0 && m2 & (((1u128 << 0u128) - 1) as u128) == 0) by (bit_vector);
    } else {
        let k = (n - 1) as nat;
        lemma_set_bits_props(m1, k);
        lemma_set_bits_props(m2, k);
        let (r1, r2) = (set_bits_below(m1, k), set_bits_below(m2, k));
        let (s1, s2) = (set_bits_below(m1, n), set_bits_below(m2, n));
        if bit(m1, k) != bit(m2, k) {
            // one list ends with k, the other contains only values < k
            if bit(m1, k) { assert(s1.last() == k as u16); assert(s2 == r2); if s2.len() > 0 { assert(s2[s2.len() - 1] < k); } assert(s1.len() > 0); assert(false); }
            else { assert(s2.last() == k as u16); assert(s1 == r1); if s1.len() > 0 { assert(s1[s1.len() - 1] < k); } assert(false); }
        }
        if bit(m1, k) { assert(r1 =~= s1.drop_last()); assert(r2 =~= s2.drop_last()); }
        lemma_set_bits_injective(m1, m2, k);
        let kk = k as u128;
        assert(kk <= 126 && (m1 & (((1u128 << kk) - 1) as u128)) == (m2 & (((1u128 << kk) - 1) as u128)) && ((m1 >> kk) & 1) == ((m2 >> kk) & 1)
            ==> (m1 & (((1u128 << ((kk + 1) as u128)) - 1) as u128)) == (m2 & (((1u128 << ((kk + 1) as u128)) - 1) as u128))) by (bit_vector);
        assert(bit(m1, k) == bit(m2, k));
        let (x1, x2) = (m1 >> kk, m2 >> kk);
        assert((x1 & 1) == 0 || (x1 & 1) == 1) by (bit_vector);
        assert((x2 & 1) == 0 || (x2 & 1) == 1) by (bit_vector);
        assert(((m1 >> kk) & 1) == ((m2 >> kk) & 1));
    }
}
proof fn lemma_chan_list_injective(m1: u128, m2: u128)
    requires chan_list(m1) == chan_list(m2), m1 & low(79) == m1, m2 & low(79) == m2
    ensures m1 == m2
{
    lemma_set_bits_props(m1, 79);
    lemma_set_bits_props(m2, 79);
    let (a, b) = (set_bits_below(m1, 79), set_bits_below(m2, 79));
    assert(a.len() == chan_list(m1).len() && b.len() == chan_list(m2).len());
    assert forall|i: int| 0 <= i < a.len() implies a[i] == b[i] by {
        assert(chan_list(m1)[i] == chan_of((a[i] + 1) as u16));
        assert(chan_list(m2)[i] == chan_of((b[i] + 1) as u16));
        lemma_chan_injective((a[i] + 1) as u16, (b[i] + 1) as u16);
    }
    assert(a =~= b);
    lemma_set_bits_injective(m1, m2, 79);
}
proof fn lemma_le16_injective(s: Seq<u8>, t: Seq<u8>, o: int)
    requires 0 <= o, o + 2 <= s.len(), o + 2 <= t.len(), le16(s, o) == le16(t, o)
    ensures s[o] == t[o], s[o + 1] == t[o + 1]
{
    vstd::bytes::lemma_auto_spec_u16_to_from_le_bytes();
    let (a, b) = (s.subrange(o, o + 2), t.subrange(o, o + 2));
    assert(a.len() == 2 && b.len() == 2);
    assert(vstd::bytes::spec_u16_to_le_bytes(vstd::bytes::spec_u16_from_le_bytes(a)) == a);
    assert(vstd::bytes::spec_u16_to_le_bytes(vstd::bytes::spec_u16_from_le_bytes(b)) == b);
    assert(a == b);
    assert(a[0] == s[o] && a[1] == s[o + 1] && b[0] == t[o] && b[1] == t[o + 1]);
}
proof fn lemma_le32_injective(s: Seq<u8>, t: Seq<u8>, o: int)
    requires 0 <= o, o + 4 <= s.len(), o + 4 <= t.len(), le32(s, o) == le32(t, o)
    ensures forall|k: int| 0 <= k < 4 ==> #[trigger] byte_at(s, o + k) == byte_at(t, o + k)
{
    vstd::bytes::lemma_auto_spec_u32_to_from_le_bytes();
    let (a, b) = (s.subrange(o, o + 4), t.subrange(o, o + 4));
    assert(a.len() == 4 && b.len() == 4);
    assert(vstd::bytes::spec_u32_to_le_bytes(vstd::bytes::spec_u32_from_le_bytes(a)) == a);
    assert(vstd::bytes::spec_u32_to_le_bytes(vstd::bytes::spec_u32_from_le_bytes(b)) == b);
    assert(a == b);
    assert forall|k: int| 0 <= k < 4 implies #[trigger] byte_at(s, o + k) == byte_at(t, o + k) by { assert(a[k] == s[o + k] && b[k] == t[o + k]); }
}
proof fn lemma_le64_injective(s: Seq<u8>, t: Seq<u8>, o: int)
    requires 0 <= o, o + 8 <= s.len(), o + 8 <= t.len(), le64(s, o) == le64(t, o)
    ensures forall|k: int| 0 <= k < 8 ==> #[trigger] byte_at(s, o + k) == byte_at(t, o + k)
{
    vstd::bytes::lemma_auto_spec_u64_to_from_le_bytes();
    let (a, b) = (s.subrange(o, o + 8), t.subrange(o, o + 8));
    assert(a.len() == 8 && b.len() == 8);
    assert(vstd::bytes::spec_u64_to_le_bytes(vstd::bytes::spec_u64_from_le_bytes(a)) == a);
    assert(vstd::bytes::spec_u64_to_le_bytes(vstd::bytes::spec_u64_from_le_bytes(b)) == b);
    assert(a == b);
    assert forall|k: int| 0 <= k < 8 implies #[trigger] byte_at(s, o + k) == byte_at(t, o + k) by { assert(a[k] == s[o + k] && b[k] == t[o + k]); }
}
pub proof fn lemma_pwb_decode_injective(p: PwbV2Packet, s: Seq<u8>, t: Seq<u8>)
    requires pwb_ok(s), pwb_ok(t), pwb_fields(p, s), pwb_fields(p, t)
    ensures s == t
{
    assert(s.len() == t.len());
    lemma_le16_injective(s, t, 10); lemma_le64_injective(s, t, 12); lemma_le16_injective(s, t, 20); lemma_le16_injective(s, t, 22);
    lemma_le32_injective(s, t, 44); lemma_le16_injective(s, t, 48);
    lemma_mask80_low(s, 24); lemma_mask80_low(t, 24); lemma_mask80_low(s, 34); lemma_mask80_low(t, 34);
    lemma_chan_list_injective(mask80(s, 24), mask80(t, 24));
    lemma_chan_list_injective(mask80(s, 34), mask80(t, 34));
    lemma_mask80_bytes(s, 24); lemma_mask80_bytes(t, 24); lemma_mask80_bytes(s, 34); lemma_mask80_bytes(t, 34);
    assert forall|i: int| 0 <= i < s.len() implies s[i] == t[i] by {
        if i < 4 {
        } else if i < 10 {
            assert(s.subrange(4, 10)[i - 4] == s[i] && t.subrange(4, 10)[i - 4] == t[i]);
        } else if i < 24 {
            if i >= 12 && i < 20 { assert(byte_at(s, 12 + (i - 12)) == byte_at(t, 12 + (i - 12))); }
        } else if i < 34 {
            assert(byte_at(s, 24 + (i - 24)) == mask_byte(mask80(s, 24), i - 24) && byte_at(t, 24 + (i - 24)) == mask_byte(mask80(t, 24), i - 24));
        } else if i < 44 {
            assert(byte_at(s, 34 + (i - 34)) == mask_byte(mask80(s, 34), i - 34) && byte_at(t, 34 + (i - 34)) == mask_byte(mask80(t, 34), i - 34));
        } else if i < 48 {
            assert(byte_at(s, 44 + (i - 44)) == byte_at(t, 44 + (i - 44)));
        } else if i < 52 {
        } else {
            let j = (i - 52) / 2;
            assert(0 <= j < p.data@.len());
            assert(p.data@[j] as int == lei16(s, 52 + 2 * j) && p.data@[j] as int == lei16(t, 52 + 2 * j));
        }
    }
    assert(s =~= t);
}
