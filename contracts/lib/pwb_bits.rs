// Bit-vector facts and sequence lemmas for the two `while num != 0 { leading_zeros; push; xor }` loops of the PWB decoder.
pub assume_specification [ u128::leading_zeros ] (x: u128) -> (r: u32)
    ensures r <= 128, x != 0 ==> r <= 127 && (x >> ((127 - r) as u128)) == 1;

pub proof fn bv_top(x: u128, k: u128)
    requires k <= 127, (x >> k) == 1
    ensures (x >> k) & 1 == 1,
            x ^ (1u128 << k) == x & (((1u128 << k) - 1) as u128),
            forall|j: u128| k < j <= 127 ==> #[trigger] ((x >> j) & 1) == 0,
{
    assert((x >> k) == 1 ==> (x >> k) & 1 == 1) by (bit_vector);
    assert((x >> k) == 1 && k <= 127 ==> x ^ (1u128 << k) == x & (((1u128 << k) - 1) as u128)) by (bit_vector);
    assert forall|j: u128| k < j <= 127 implies #[trigger] ((x >> j) & 1) == 0 by {
        assert((x >> k) == 1 && k < j && j <= 127 ==> ((x >> j) & 1) == 0) by (bit_vector);
    }
}
pub proof fn bv_and_low(m: u128, top: u128, k: u128, j: u128)
    requires k <= top <= 127, j <= 127
    ensures (m & (((1u128 << top) - 1) as u128)) & (((1u128 << k) - 1) as u128) == m & (((1u128 << k) - 1) as u128),
            j < top ==> ((m & (((1u128 << top) - 1) as u128)) >> j) & 1 == (m >> j) & 1,
            (m & (((1u128 << top) - 1) as u128)) == 0 && j < top ==> (m >> j) & 1 == 0,
{
    assert(k <= top && top <= 127 ==> (m & (((1u128 << top) - 1) as u128)) & (((1u128 << k) - 1) as u128) == m & (((1u128 << k) - 1) as u128)) by (bit_vector);
    assert(j < top && top <= 127 ==> ((m & (((1u128 << top) - 1) as u128)) >> j) & 1 == (m >> j) & 1) by (bit_vector);
    assert((m & (((1u128 << top) - 1) as u128)) == 0 && j < top && top <= 127 ==> (m >> j) & 1 == 0) by (bit_vector);
}
pub proof fn bv_lt(x: u128, k: u128, top: u128)
    requires top <= 127, k <= 127, (x & (((1u128 << top) - 1) as u128)) >> k == 1
    ensures k < top
{
    assert(top <= 127 && k <= 127 && (x & (((1u128 << top) - 1) as u128)) >> k == 1 ==> k < top) by (bit_vector);
}
pub proof fn lemma_empty_below(m: u128, top: nat)
    requires top <= 127, m & low(top) == 0
    ensures set_bits_below(m, top) == Seq::<u16>::empty()
    decreases top
{
    if top > 0 {
        bv_and_low(m, top as u128, 0, (top - 1) as u128);
        bv_and_low(m, top as u128, (top - 1) as u128, 0);
        assert(m & low((top - 1) as nat) == 0) by {
            let t = top as u128; let t1 = (top - 1) as u128;
            assert(t <= 127 && t1 == t - 1 && m & (((1u128 << t) - 1) as u128) == 0 ==> m & (((1u128 << t1) - 1) as u128) == 0) by (bit_vector);
        }
        lemma_empty_below(m, (top - 1) as nat);
    }
}
pub proof fn lemma_skip_zero(m: u128, k: nat, top: nat)
    requires k < top <= 127, bit(m, k), forall|j: nat| k < j < top ==> !bit(m, j)
    ensures set_bits_below(m, top) == set_bits_below(m, k).push(k as u16)
    decreases top - k
{
    if top == k + 1 {
    } else {
        lemma_skip_zero(m, k, (top - 1) as nat);
        assert(!bit(m, (top - 1) as nat));
    }
}
// facts about set_bits_below used by callers
pub proof fn lemma_set_bits_props(m: u128, n: nat)
    requires n <= 127
    ensures set_bits_below(m, n).len() <= n,
            forall|i: int| 0 <= i < set_bits_below(m, n).len() ==> #[trigger] set_bits_below(m, n)[i] < n,
            forall|i: int, j: int| 0 <= i < j < set_bits_below(m, n).len() ==> set_bits_below(m, n)[i] < set_bits_below(m, n)[j],
    decreases n
{
    if n > 0 { lemma_set_bits_props(m, (n - 1) as nat); }
}
