// C19: rows of alpha-g-vertices
pub uninterp spec fn seconds_of(ticks: u64) -> f64;           // `ticks as f64 / 62.5 MHz` in seconds: opaque (floats are not reasoned about)
#[verifier::external_body]
pub fn lift_seconds(ticks: u64) -> (r: f64) ensures r == seconds_of(ticks) { unimplemented!() }
// uom::si::f64::Length, opaque; `.get::<meter>()` is its value in metres
#[verifier::external_body] #[derive(Clone, Copy)] pub struct Length { v: f64 }
pub uninterp spec fn meters_of(l: Length) -> f64;
impl Length {
    #[verifier::external_body]
    pub fn get_meter(&self) -> (r: f64) ensures r == meters_of(*self) { unimplemented!() }
}
// the three coordinates `MainEvent::vertex()` reports (alpha_g_physics::reconstruction::Coordinate as used by the closure)
#[derive(Clone, Copy)]
pub struct VertexPos { pub x: Length, pub y: Length, pub z: Length }
// `Row::default()` of the derived Default: serial number 0, every Option field None
#[verifier::external_body]
pub fn row_default() -> (r: Row) ensures r.serial_number == 0, vrow_empty(r) { unimplemented!() }

pub open spec fn vrow_empty(r: Row) -> bool {
    r.trg_time.is_none() && r.reconstructed_x.is_none() && r.reconstructed_y.is_none() && r.reconstructed_z.is_none()
}
pub open spec fn vrow_of(r: Row, vertex: Option<VertexPos>, cumulative: u64) -> bool {
    &&& r.trg_time == Some(seconds_of(cumulative))
    &&& match vertex {
            Some(v) => r.reconstructed_x == Some(meters_of(v.x)) && r.reconstructed_y == Some(meters_of(v.y)) && r.reconstructed_z == Some(meters_of(v.z)),
            None => r.reconstructed_x.is_none() && r.reconstructed_y.is_none() && r.reconstructed_z.is_none(),
        }
}
