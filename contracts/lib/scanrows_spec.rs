// C19: rows of alpha-g-trg-scalers
pub uninterp spec fn seconds_of(ticks: u64) -> f64;           // `ticks as f64 / 62.5 MHz` in seconds: opaque (floats are not reasoned about)
#[verifier::external_body]
pub fn lift_seconds(ticks: u64) -> (r: f64) ensures r == seconds_of(ticks) { unimplemented!() }
// `Row::default()` of the derived Default: serial number 0, every Option field None
#[verifier::external_body]
pub fn row_default() -> (r: Row) ensures r.serial_number == 0, row_empty(r) { unimplemented!() }

pub open spec fn row_empty(r: Row) -> bool {
    r.trg_time.is_none() && r.input.is_none() && r.drift_veto.is_none() && r.scaledown.is_none() && r.pulser.is_none() && r.output.is_none()
}
pub open spec fn row_of_packet(r: Row, p: TrgV3Packet, cumulative: u64) -> bool {
    &&& r.trg_time == Some(seconds_of(cumulative))
    &&& r.input == Some(p.input_counter)
    &&& r.drift_veto == Some(p.drift_veto_counter)
    &&& r.scaledown == Some(p.scaledown_counter)
    &&& r.pulser == Some(p.pulser_counter)
    &&& r.output == Some(p.output_counter)
}
pub open spec fn packet_timestamp(p: Option<TrgPacket>) -> Option<u32> {
    match p { Some(TrgPacket::V3(q)) => Some(q.timestamp), None => None }
}
