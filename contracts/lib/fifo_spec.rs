// C07 stream level: the language the Chronobox FIFO parser must consume, and its split invariance.
// `repeat(0.., entry)` may be empty, so `entry* (block entry*)*` is `(entry | block)*`, longest prefix.
// Element predicates are exactly what the Kani harnesses fifo_word_complete / scalers_block_lengths prove for the real
// element parsers; that chronobox_fifo computes `entries`/`plen` from them is assumption A-WINNOW (bounded native cross-check).

pub open spec fn is_entry(s: Seq<u8>) -> bool {
    s.len() >= 4 && (s[3] == 0xff || (s[3] & 0x80 == 0x80 && (s[3] & 0x7f) < 59))
}
pub open spec fn is_block(s: Seq<u8>) -> bool {
    s.len() >= 244 && s[0] == 0x3c && s[1] == 0 && s[2] == 0 && s[3] == 0xfe
}
// number of bytes the longest element prefix consumes
pub open spec fn plen(s: Seq<u8>) -> nat
    decreases s.len()
{
    if is_entry(s) { 4 + plen(s.skip(4)) }
    else if is_block(s) { 244 + plen(s.skip(244)) }
    else { 0 }
}
// the entry words of that prefix, in order
pub open spec fn entries(s: Seq<u8>) -> Seq<Seq<u8>>
    decreases s.len()
{
    if is_entry(s) { seq![s.subrange(0, 4)] + entries(s.skip(4)) }
    else if is_block(s) { entries(s.skip(244)) }
    else { Seq::empty() }
}
pub proof fn lemma_plen_le(s: Seq<u8>)
    ensures plen(s) <= s.len()
    decreases s.len()
{
    if is_entry(s) { lemma_plen_le(s.skip(4)); }
    else if is_block(s) { lemma_plen_le(s.skip(244)); }
}
// the tag word of a scaler block is not an entry: the grammar is unambiguous
pub proof fn lemma_unambiguous(s: Seq<u8>)
    requires is_block(s)
    ensures !is_entry(s)
{
    assert(0xfeu8 & 0x7f == 126) by (bit_vector);
}
// the parser stops exactly where no further element starts (longest prefix), and the remainder is the untouched suffix
pub proof fn lemma_longest_prefix(s: Seq<u8>)
    ensures plen(s) <= s.len(), !is_entry(s.skip(plen(s) as int)), !is_block(s.skip(plen(s) as int))
    decreases s.len()
{
    lemma_plen_le(s);
    if is_entry(s) {
        lemma_longest_prefix(s.skip(4));
        lemma_plen_le(s.skip(4));
        assert(s.skip(4).skip(plen(s.skip(4)) as int) == s.skip(plen(s) as int));
    } else if is_block(s) {
        lemma_longest_prefix(s.skip(244));
        lemma_plen_le(s.skip(244));
        assert(s.skip(244).skip(plen(s.skip(244)) as int) == s.skip(plen(s) as int));
    } else {
        assert(s.skip(0) == s);
    }
}
// split invariance: parse(a ++ c) == parse(a) then resume on rest(a) ++ c  -- for every cut, also inside an element
pub proof fn lemma_split(a: Seq<u8>, c: Seq<u8>)
    ensures
        plen(a) <= a.len(),
        plen(a + c) == plen(a) + plen(a.skip(plen(a) as int) + c),
        entries(a + c) == entries(a) + entries(a.skip(plen(a) as int) + c),
    decreases a.len()
{
    lemma_plen_le(a);
    if is_entry(a) {
        assert((a + c).subrange(0, 4) == a.subrange(0, 4));
        assert(is_entry(a + c));
        assert((a + c).skip(4) == a.skip(4) + c);
        lemma_split(a.skip(4), c);
        lemma_plen_le(a.skip(4));
        assert(a.skip(4).skip(plen(a.skip(4)) as int) == a.skip(plen(a) as int));
    } else if is_block(a) {
        lemma_unambiguous(a);
        assert(!is_entry(a + c));
        assert(is_block(a + c));
        assert((a + c).skip(244) == a.skip(244) + c);
        lemma_split(a.skip(244), c);
        lemma_plen_le(a.skip(244));
        assert(a.skip(244).skip(plen(a.skip(244)) as int) == a.skip(plen(a) as int));
    } else {
        assert(a.skip(0) == a);
        assert(entries(a) + entries(a + c) == entries(a + c));
    }
}
// the final remainders agree as well: feeding a stream in two pieces leaves the same unconsumed suffix
pub proof fn lemma_split_rest(a: Seq<u8>, c: Seq<u8>)
    ensures (a + c).skip(plen(a + c) as int) == (a.skip(plen(a) as int) + c).skip(plen(a.skip(plen(a) as int) + c) as int)
{
    lemma_split(a, c);
    lemma_plen_le(a);
    let r = a.skip(plen(a) as int);
    lemma_plen_le(r + c);
    assert((a + c).skip(plen(a) as int) =~= r + c);
    assert((a + c).skip(plen(a + c) as int) =~= (r + c).skip(plen(r + c) as int));
}
// any number of pieces: by induction the piecewise parse equals the parse of the concatenation
pub open spec fn feed(rest: Seq<u8>, pieces: Seq<Seq<u8>>) -> (Seq<Seq<u8>>, Seq<u8>)
    decreases pieces.len()
{
    if pieces.len() == 0 { (Seq::empty(), rest) } else {
        let buf = rest + pieces[0];
        let (e, r) = feed(buf.skip(plen(buf) as int), pieces.skip(1));
        (entries(buf) + e, r)
    }
}
pub open spec fn concat_all(pieces: Seq<Seq<u8>>) -> Seq<u8>
    decreases pieces.len()
{
    if pieces.len() == 0 { Seq::empty() } else { pieces[0] + concat_all(pieces.skip(1)) }
}
pub proof fn lemma_feed(rest: Seq<u8>, pieces: Seq<Seq<u8>>)
    requires pieces.len() > 0
    ensures
        feed(rest, pieces).0 == entries(rest + concat_all(pieces)),
        feed(rest, pieces).1 == (rest + concat_all(pieces)).skip(plen(rest + concat_all(pieces)) as int),
    decreases pieces.len()
{
    let buf = rest + pieces[0];
    let tail = pieces.skip(1);
    if tail.len() == 0 {
        assert(concat_all(tail) == Seq::<u8>::empty());
        assert(pieces[0] + concat_all(tail) =~= pieces[0]);
        assert(concat_all(pieces) =~= pieces[0]);
        assert(feed(buf.skip(plen(buf) as int), tail).0 == Seq::<Seq<u8>>::empty());
        assert(entries(buf) + Seq::<Seq<u8>>::empty() =~= entries(buf));
    } else {
        lemma_feed(buf.skip(plen(buf) as int), tail);
        lemma_split(buf, concat_all(tail));
        lemma_split_rest(buf, concat_all(tail));
        assert(rest + concat_all(pieces) =~= buf + concat_all(tail));
    }
}
