// C19: the unwrapped-time scan step of alpha-g-vertices / alpha-g-trg-scalers.
pub open spec fn scan_current(previous: Option<u32>, timestamp: Option<u32>) -> u32 {
    match timestamp { Some(t) => t, None => match previous { Some(p) => p, None => 0 } }
}
// 32-bit wrapped difference to the previous decodable event; 0 for the first event and for undecodable ones
pub open spec fn scan_delta(previous: Option<u32>, timestamp: Option<u32>) -> int {
    match previous {
        Some(p) => (scan_current(previous, timestamp) as int - p as int) % 0x1_0000_0000,
        None => 0,
    }
}
