// C15: clustering conserves its input (physics/src/reconstruction/track_finding.rs).  Space points are compared with the derived
// float equality in /repo; here `==` on SpacePoint is the uninterpreted relation sp_eq, and the contracts require that on the points
// handed in it coincides with identity (no NaN coordinate, no +0/-0 aliasing) -- see `eq_is_identity`.

use vstd::multiset::*;
use vstd::seq_lib::*;

pub uninterp spec fn sp_eq(a: SpacePoint, b: SpacePoint) -> bool;
impl PartialEq for SpacePoint { #[verifier::external_body] fn eq(&self, o: &SpacePoint) -> (r: bool) ensures r == sp_eq(*self, *o) { unimplemented!() } }
impl PartialEqSpecImpl for SpacePoint {
    open spec fn obeys_eq_spec() -> bool { true }
    open spec fn eq_spec(&self, o: &SpacePoint) -> bool { sp_eq(*self, *o) }
}
pub open spec fn eq_is_identity(m: Multiset<SpacePoint>) -> bool {
    forall|a: SpacePoint, b: SpacePoint| m.contains(a) && m.contains(b) ==> (#[trigger] sp_eq(a, b) <==> a == b)
}

// Euclidean distance of two space points (SpacePoint::distance: cos, sin, powi, sqrt over uom quantities), opaque
pub uninterp spec fn sp_dist(a: SpacePoint, b: SpacePoint) -> Length;
pub uninterp spec fn sp_x(a: SpacePoint) -> Length;
pub uninterp spec fn sp_y(a: SpacePoint) -> Length;
pub uninterp spec fn len_hypot(a: Length, b: Length) -> Length;
impl SpacePoint {
    #[verifier::external_body]
    pub fn distance(self, other: SpacePoint) -> (r: Length) ensures r == sp_dist(self, other) { unimplemented!() }
    // the other public coordinate accessors, so that a body that starts using them is still verified (against `near`) instead of
    // becoming undecided
    #[verifier::external_body]
    pub fn x(self) -> (r: Length) ensures r == sp_x(self) { unimplemented!() }
    #[verifier::external_body]
    pub fn y(self) -> (r: Length) ensures r == sp_y(self) { unimplemented!() }
}
impl Length {
    #[verifier::external_body]
    pub fn hypot(self, other: Length) -> (r: Length) ensures r == len_hypot(self, other) { unimplemented!() }
}
pub open spec fn near(a: SpacePoint, b: SpacePoint, d: Length) -> bool { l_le(sp_dist(a, b), d) }

// single linkage: every point after the first is within d of an earlier point of the same cluster
pub open spec fn linked(c: Seq<SpacePoint>, d: Length) -> bool {
    forall|k: int| 1 <= k < c.len() ==> exists|i: int| 0 <= i < k && near(c[i], #[trigger] c[k], d)
}
pub open spec fn ms(s: Seq<SpacePoint>) -> Multiset<SpacePoint> { s.to_multiset() }

// sum of the multisets of a list of point lists
pub open spec fn ms_all(cs: Seq<Vec<SpacePoint>>) -> Multiset<SpacePoint>
    decreases cs.len()
{
    if cs.len() == 0 { Multiset::empty() } else { ms_all(cs.drop_last()).add(ms(cs.last()@)) }
}
pub proof fn lemma_ms_all_push(cs: Seq<Vec<SpacePoint>>, c: Vec<SpacePoint>)
    ensures ms_all(cs.push(c)) == ms_all(cs).add(ms(c@))
{
    assert(cs.push(c).drop_last() == cs);
}
pub proof fn lemma_ms_all_member(cs: Seq<Vec<SpacePoint>>, i: int)
    requires 0 <= i < cs.len()
    ensures ms(cs[i]@).subset_of(ms_all(cs))
    decreases cs.len()
{
    if i == cs.len() - 1 {
    } else {
        lemma_ms_all_member(cs.drop_last(), i);
    }
}

pub proof fn lemma_pop_ms(s: Seq<SpacePoint>)
    requires s.len() > 0
    ensures ms(s) == ms(s.drop_last()).insert(s.last())
{
    broadcast use group_to_multiset_ensures;
    assert(s == s.drop_last().push(s.last()));
}
pub proof fn lemma_push_ms(s: Seq<SpacePoint>, x: SpacePoint)
    ensures ms(s.push(x)) == ms(s).insert(x)
{
    broadcast use group_to_multiset_ensures;
}
// Vec::swap_remove(i): the removed element is s[i], what stays is s with s[i] overwritten by the last element and the last dropped
pub proof fn lemma_swap_remove_ms(s: Seq<SpacePoint>, i: int)
    requires 0 <= i < s.len()
    ensures ms(s) == ms(s.update(i, s.last()).drop_last()).insert(s[i])
{
    broadcast use group_to_multiset_ensures, group_multiset_axioms;
    let t = s.update(i, s.last());
    lemma_pop_ms(t);
    to_multiset_update(s, i, s.last());
    let a = ms(s); let b = ms(t.drop_last()); let l = s.last(); let x = s[i];
    assert(a.insert(l).remove(x) == b.insert(l));
    assert forall|v: SpacePoint| a.count(v) == #[trigger] b.insert(x).count(v) by {
        assert(a.insert(l).remove(x).count(v) == b.insert(l).count(v));
        assert(a.count(x) >= 1);
    }
    assert(a =~= b.insert(x));
}
// Vec::remove(i): what stays is s without position i (an order-preserving rewrite of the same step)
pub proof fn lemma_remove_ms(s: Seq<SpacePoint>, i: int)
    requires 0 <= i < s.len()
    ensures ms(s) == ms(s.remove(i)).insert(s[i])
{
    broadcast use group_to_multiset_ensures, group_multiset_axioms;
    to_multiset_remove(s, i);
    assert(ms(s).count(s[i]) >= 1);
    assert(ms(s) =~= ms(s.remove(i)).insert(s[i]));
}
pub open spec fn all_linked(cs: Seq<Vec<SpacePoint>>, d: Length) -> bool {
    forall|i: int| 0 <= i < cs.len() ==> linked((#[trigger] cs[i])@, d)
}
pub proof fn lemma_ms_empty()
    ensures ms(Seq::<SpacePoint>::empty()) =~= Multiset::<SpacePoint>::empty()
{
    broadcast use group_to_multiset_ensures, group_multiset_axioms;
    assert forall|v: SpacePoint| ms(Seq::<SpacePoint>::empty()).count(v) == 0 by {
        if ms(Seq::<SpacePoint>::empty()).count(v) > 0 { assert(Seq::<SpacePoint>::empty().contains(v)); }
    }
}

// ---- the Hough accumulator (IndexMap<(u32, u32), Vec<SpacePoint>> of votes, filled through float trigonometry): opaque.
// Its abstract state is the multiset of points added and not yet removed; the three methods are assumed leaves (contracts in
// cluster.vspec), cross-checked natively on the verbatim text (c15_acc).
#[verifier::external_body]
pub struct HoughSpaceAccumulator { _p: u8 }
pub uninterp spec fn acc_view(a: &HoughSpaceAccumulator) -> Multiset<SpacePoint>;

pub proof fn lemma_split_ms(s: Seq<SpacePoint>, i: int)
    requires 0 <= i <= s.len()
    ensures ms(s) == ms(s.subrange(0, i)).add(ms(s.subrange(i, s.len() as int)))
{
    lemma_multiset_commutative(s.subrange(0, i), s.subrange(i, s.len() as int));
    assert(s =~= s.subrange(0, i) + s.subrange(i, s.len() as int));
}
pub proof fn lemma_prefix_step(s: Seq<SpacePoint>, i: int)
    requires 0 <= i < s.len()
    ensures ms(s.subrange(0, i + 1)) == ms(s.subrange(0, i)).insert(s[i])
{
    lemma_push_ms(s.subrange(0, i), s[i]);
    assert(s.subrange(0, i + 1) =~= s.subrange(0, i).push(s[i]));
}
// removing the points of `b` one after the other from a view that contains all of them: the next one is still there
pub proof fn lemma_next_present(v1: Multiset<SpacePoint>, cur: Multiset<SpacePoint>, b: Seq<SpacePoint>, i: int)
    requires 0 <= i < b.len(), ms(b).subset_of(v1), cur.add(ms(b.subrange(0, i))) == v1
    ensures cur.contains(b[i])
{
    broadcast use group_multiset_axioms, group_to_multiset_ensures;
    lemma_split_ms(b, i);
    let suf = b.subrange(i, b.len() as int);
    assert(suf[0] == b[i]);
    assert(suf.contains(b[i]));
    assert(ms(suf).count(b[i]) >= 1);
    assert(ms(b).count(b[i]) <= v1.count(b[i]));
}

// ---- the result: clusters are point lists wrapped in `Cluster`
pub open spec fn ms_cls(cs: Seq<Cluster>) -> Multiset<SpacePoint>
    decreases cs.len()
{
    if cs.len() == 0 { Multiset::empty() } else { ms_cls(cs.drop_last()).add(ms(cs.last().0@)) }
}
pub proof fn lemma_ms_cls_push(cs: Seq<Cluster>, c: Cluster)
    ensures ms_cls(cs.push(c)) == ms_cls(cs).add(ms(c.0@))
{
    assert(cs.push(c).drop_last() == cs);
}
pub proof fn lemma_ms_cls_prefix(cs: Seq<Cluster>, o: int)
    requires 0 <= o < cs.len()
    ensures ms_cls(cs.subrange(0, o + 1)) == ms_cls(cs.subrange(0, o)).add(ms(cs[o].0@))
{
    lemma_ms_cls_push(cs.subrange(0, o), cs[o]);
    assert(cs.subrange(0, o + 1) =~= cs.subrange(0, o).push(cs[o]));
}
// points already taken out of `sp` while walking the clusters: all of clusters[0..o] and the first i points of clusters[o]
pub open spec fn walked(cs: Seq<Cluster>, o: int, i: int) -> Multiset<SpacePoint> {
    ms_cls(cs.subrange(0, o)).add(if o < cs.len() { ms(cs[o].0@.subrange(0, i)) } else { Multiset::empty() })
}
// while walking, the next point is still in what is left of sp
pub proof fn lemma_walk_present(sp0: Multiset<SpacePoint>, cur: Multiset<SpacePoint>, cs: Seq<Cluster>, o: int, i: int)
    requires 0 <= o < cs.len(), 0 <= i < cs[o].0@.len(), ms_cls(cs).subset_of(sp0), cur.add(walked(cs, o, i)) == sp0
    ensures cur.contains(cs[o].0@[i])
{
    broadcast use group_multiset_axioms, group_to_multiset_ensures;
    let p = cs[o].0@[i];
    // ms_cls(cs) >= ms_cls(cs[0..o]) + ms(cs[o])
    lemma_ms_cls_split(cs, o);
    lemma_split_ms(cs[o].0@, i);
    let suf = cs[o].0@.subrange(i, cs[o].0@.len() as int);
    assert(suf[0] == p);
    assert(suf.contains(p));
    assert(ms(suf).count(p) >= 1);
    assert(ms_cls(cs).count(p) <= sp0.count(p));
}
pub proof fn lemma_ms_cls_split(cs: Seq<Cluster>, o: int)
    requires 0 <= o < cs.len()
    ensures ms_cls(cs.subrange(0, o)).add(ms(cs[o].0@)).subset_of(ms_cls(cs))
    decreases cs.len()
{
    broadcast use group_multiset_axioms;
    if o == cs.len() - 1 {
        assert(cs.subrange(0, o) =~= cs.drop_last());
    } else {
        lemma_ms_cls_split(cs.drop_last(), o);
        assert(cs.drop_last().subrange(0, o) =~= cs.subrange(0, o));
    }
}
pub open spec fn cls_min(cs: Seq<Cluster>, n: usize) -> bool { forall|i: int| 0 <= i < cs.len() ==> (#[trigger] cs[i]).0@.len() >= n }
pub open spec fn cls_linked(cs: Seq<Cluster>, d: Length) -> bool { forall|i: int| 0 <= i < cs.len() ==> linked((#[trigger] cs[i]).0@, d) }
