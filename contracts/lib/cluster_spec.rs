// C15: clustering conserves its input (physics/src/reconstruction/track_finding.rs).  Space points are compared with the derived
// float equality in /repo; here `==` on SpacePoint is the uninterpreted relation sp_eq, and the contracts require that on the points
// handed in it coincides with identity (no NaN coordinate, no +0/-0 aliasing) -- see `eq_is_identity`.

use vstd::multiset::*;
use vstd::seq_lib::*;

pub uninterp spec fn sp_eq(a: SpacePoint, b: SpacePoint) -> bool;
impl PartialEq for SpacePoint { #[verifier::external_body] fn eq(&self, o: &SpacePoint) -> (r: bool) ensures r == sp_eq(*self, *o) { unimplemented!() } }
impl PartialEqSpecImpl for SpacePoint {
    open spec fn obeys_eq_spec() -> bool { true }
    open spec fn eq_spec(&self, o: &SpacePoint) -> bool { sp_eq(*self, *o) }
}
pub open spec fn eq_is_identity(s: Seq<SpacePoint>) -> bool {
    forall|i: int, j: int| 0 <= i < s.len() && 0 <= j < s.len() ==> (sp_eq(#[trigger] s[i], #[trigger] s[j]) <==> s[i] == s[j])
}

// Euclidean distance of two space points (SpacePoint::distance: cos, sin, powi, sqrt over uom quantities), opaque
pub uninterp spec fn sp_dist(a: SpacePoint, b: SpacePoint) -> Length;
impl SpacePoint {
    #[verifier::external_body]
    pub fn distance(self, other: SpacePoint) -> (r: Length) ensures r == sp_dist(self, other) { unimplemented!() }
}
pub open spec fn near(a: SpacePoint, b: SpacePoint, d: Length) -> bool { l_le(sp_dist(a, b), d) }

// single linkage: every point after the first is within d of an earlier point of the same cluster
pub open spec fn linked(c: Seq<SpacePoint>, d: Length) -> bool {
    forall|k: int| 1 <= k < c.len() ==> exists|i: int| 0 <= i < k && near(c[i], #[trigger] c[k], d)
}
pub open spec fn ms(s: Seq<SpacePoint>) -> Multiset<SpacePoint> { s.to_multiset() }

// sum of the multisets of a list of point lists
pub open spec fn ms_all(cs: Seq<Vec<SpacePoint>>) -> Multiset<SpacePoint>
    decreases cs.len()
{
    if cs.len() == 0 { Multiset::empty() } else { ms_all(cs.drop_last()).add(ms(cs.last()@)) }
}
pub proof fn lemma_ms_all_push(cs: Seq<Vec<SpacePoint>>, c: Vec<SpacePoint>)
    ensures ms_all(cs.push(c)) == ms_all(cs).add(ms(c@))
{
    assert(cs.push(c).drop_last() == cs);
}
pub proof fn lemma_ms_all_member(cs: Seq<Vec<SpacePoint>>, i: int)
    requires 0 <= i < cs.len()
    ensures ms(cs[i]@).subset_of(ms_all(cs))
    decreases cs.len()
{
    if i == cs.len() - 1 {
    } else {
        lemma_ms_all_member(cs.drop_last(), i);
    }
}

pub proof fn lemma_pop_ms(s: Seq<SpacePoint>)
    requires s.len() > 0
    ensures ms(s) == ms(s.drop_last()).insert(s.last())
{
    broadcast use group_to_multiset_ensures;
    assert(s == s.drop_last().push(s.last()));
}
pub proof fn lemma_push_ms(s: Seq<SpacePoint>, x: SpacePoint)
    ensures ms(s.push(x)) == ms(s).insert(x)
{
    broadcast use group_to_multiset_ensures;
}
// Vec::swap_remove(i): the removed element is s[i], what stays is s with s[i] overwritten by the last element and the last dropped
pub proof fn lemma_swap_remove_ms(s: Seq<SpacePoint>, i: int)
    requires 0 <= i < s.len()
    ensures ms(s) == ms(s.update(i, s.last()).drop_last()).insert(s[i])
{
    broadcast use group_to_multiset_ensures, group_multiset_axioms;
    let t = s.update(i, s.last());
    lemma_pop_ms(t);
    to_multiset_update(s, i, s.last());
    let a = ms(s); let b = ms(t.drop_last()); let l = s.last(); let x = s[i];
    assert(a.insert(l).remove(x) == b.insert(l));
    assert forall|v: SpacePoint| a.count(v) == #[trigger] b.insert(x).count(v) by {
        assert(a.insert(l).remove(x).count(v) == b.insert(l).count(v));
        assert(a.count(x) >= 1);
    }
    assert(a =~= b.insert(x));
}
pub open spec fn all_linked(cs: Seq<Vec<SpacePoint>>, d: Length) -> bool {
    forall|i: int| 0 <= i < cs.len() ==> linked((#[trigger] cs[i])@, d)
}
pub proof fn lemma_ms_empty()
    ensures ms(Seq::<SpacePoint>::empty()) =~= Multiset::<SpacePoint>::empty()
{
    broadcast use group_to_multiset_ensures, group_multiset_axioms;
    assert forall|v: SpacePoint| ms(Seq::<SpacePoint>::empty()).count(v) == 0 by {
        if ms(Seq::<SpacePoint>::empty()).count(v) > 0 { assert(Seq::<SpacePoint>::empty().contains(v)); }
    }
}
