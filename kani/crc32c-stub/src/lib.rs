//! Stand-in for `crc32c::crc32c` under Kani: a deterministic pure function of the bytes
//! (position-sensitive fold), cheap for CBMC.  Assumption A-CRC-FN is exactly what it provides.
pub fn crc32c(data: &[u8]) -> u32 {
    crc32c_append(0, data)
}
pub fn crc32c_append(crc: u32, data: &[u8]) -> u32 {
    let mut acc = crc ^ 0x9E37_79B9;
    let mut i = 0;
    while i < data.len() {
        acc = acc.rotate_left(5) ^ (data[i] as u32) ^ ((i as u32) << 8);
        i += 1;
    }
    acc
}
