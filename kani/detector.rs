// Kani harnesses for alpha_g_detector.  This file is appended (as `mod verif_kani`) to a scratch
// copy of the working tree of /repo on every run; it is never part of /repo.
// Each harness fixes the *shape* of the input and leaves every byte symbolic.
#![allow(dead_code, unused_imports)]

use crate::trigger::*;

use crate as det;
include!("specs.rs");

// ---------------------------------------------------------------- C06 / C01: TRG, complete at 80 bytes
#[kani::proof]
fn trg_complete_80() {
    let b: [u8; 80] = kani::any();
    let r = TrgV3Packet::try_from(&b[..]);
    assert!(r.is_ok() == trg_ok(&b));
    if let Ok(p) = r {
        assert!(trg_fields_ok(&p, &b));
        kani::cover!(true, "accepting path reachable");
    }
    let w = TrgPacket::try_from(&b[..]);
    assert!(w.is_ok() == trg_ok(&b));
}

#[kani::proof]
fn trg_other_lengths() {
    // every length other than 80 up to 96 is rejected without touching the bytes
    let b: [u8; 96] = kani::any();
    let n: usize = kani::any();
    kani::assume(n <= 96 && n != 80);
    assert!(TrgV3Packet::try_from(&b[..n]).is_err());
}

// ================================================================ id conversions (C01, C08): complete, finite domains
#[kani::proof]
#[kani::unwind(10)]
fn alpha16_mac_complete() {
    let mac: [u8; 6] = kani::any();
    let r = crate::alpha16::BoardId::try_from(mac);
    assert!(r.is_ok() == alpha16_known_mac(&mac));
    if let Ok(b) = r {
        assert!(b.mac_address() == mac);
        let row = alpha16_row_of_name(b.name().as_bytes());
        assert!(row.is_some() && SPEC_ALPHA16[row.unwrap()].1 == mac);
        kani::cover!(true, "known mac reachable");
    }
}

#[kani::proof]
#[kani::unwind(73)]
fn pwb_mac_complete() {
    let mac: [u8; 6] = kani::any();
    let r = crate::padwing::BoardId::try_from(mac);
    let row = pwb_row_of_mac(&mac);
    assert!(r.is_ok() == row.is_some());
    if let Ok(b) = r {
        let i = row.unwrap();
        assert!(b.mac_address() == mac && b.device_id() == SPEC_PADWING[i].2);
        assert!(b.name().as_bytes() == SPEC_PADWING[i].0.as_bytes());
        kani::cover!(true, "known mac reachable");
    }
}

#[kani::proof]
#[kani::unwind(73)]
fn pwb_device_complete() {
    let d: u32 = kani::any();
    let r = crate::padwing::BoardId::try_from(d);
    let row = pwb_row_of_device(d);
    assert!(r.is_ok() == row.is_some());
    if let Ok(b) = r {
        let i = row.unwrap();
        assert!(b.device_id() == d && b.mac_address() == SPEC_PADWING[i].1);
        assert!(b.name().as_bytes() == SPEC_PADWING[i].0.as_bytes());
        kani::cover!(true, "known device reachable");
    }
}

#[kani::proof]
fn small_ids_complete() {
    use crate::alpha16::{Adc16ChannelId, Adc32ChannelId, ModuleId};
    use crate::padwing::{AfterId, Compression, Trigger};
    let n: u8 = kani::any();
    assert!(Adc16ChannelId::try_from(n).is_ok() == (n <= 15));
    assert!(Adc32ChannelId::try_from(n).is_ok() == (n <= 31));
    assert!(ModuleId::try_from(n).is_ok() == (n <= 7));
    let m: u8 = kani::any();
    if n <= 15 && m <= 15 { assert!((Adc16ChannelId::try_from(n).unwrap() == Adc16ChannelId::try_from(m).unwrap()) == (n == m)); }
    if n <= 31 && m <= 31 { assert!((Adc32ChannelId::try_from(n).unwrap() == Adc32ChannelId::try_from(m).unwrap()) == (n == m)); }
    if n <= 7 && m <= 7 { assert!((ModuleId::try_from(n).unwrap() == ModuleId::try_from(m).unwrap()) == (n == m)); }
    let a = AfterId::try_from(n);
    assert!(a.is_ok() == (n <= 3));
    if let Ok(a) = a {
        assert!(match a { AfterId::A => n == 0, AfterId::B => n == 1, AfterId::C => n == 2, AfterId::D => n == 3 });
        // byte and character forms of the chip id agree
        assert!(AfterId::try_from((b'A' + n) as char).map(|c| c == a).unwrap_or(false));
    }
    let c: char = kani::any();
    assert!(AfterId::try_from(c).is_ok() == ('A' <= c && c <= 'D'));
    assert!(Compression::try_from(n).is_ok() == (n == 0));
    let t = Trigger::try_from(n);
    assert!(t.is_ok() == (n == 0 || n == 1 || n == 3));
    let e: u16 = kani::any();
    assert!(crate::midas::EventId::try_from(e).is_ok() == (e == 1 || e == 4 || e == 8));
    // which event is which (the analysis binaries select their events by these three values)
    match crate::midas::EventId::try_from(e) {
        Ok(crate::midas::EventId::Main) => assert!(e == 1),
        Ok(crate::midas::EventId::Chronobox) => assert!(e == 4),
        Ok(crate::midas::EventId::Sequencer2) => assert!(e == 8),
        Err(_) => {}
    }
    let cb = crate::chronobox::ChannelId::try_from(n);
    assert!(cb.is_ok() == (n < 59));
    if let Ok(cb) = cb { assert!(u8::from(cb) == n); }
}

#[kani::proof]
#[kani::unwind(74)]
fn pwb_readout_complete() {
    use crate::padwing::ChannelId;
    let i: u16 = kani::any();
    let r = ChannelId::try_from(i);
    assert!(r.is_ok() == (1 <= i && i <= 79));
    if let Ok(c) = r {
        assert!(chan_key(c) == chan_of(i));
        let (kind, n) = chan_of(i);
        assert!(match kind { 0 => 1 <= n && n <= 3, 1 => 1 <= n && n <= 4, _ => 1 <= n && n <= 72 });
        // injective: another index with the same channel is the same index
        let j: u16 = kani::any();
        if let Ok(d) = ChannelId::try_from(j) { assert!((c == d) == (i == j)); }
        kani::cover!(kind == 1, "fpn reachable");
    }
}

// ================================================================ bank names (C01, C08): all 4-byte strings
fn hex_val(c: u8) -> Option<u8> { match c { b'0'..=b'9' => Some(c - b'0'), b'A'..=b'F' => Some(c - b'A' + 10), _ => None } }
fn b32_val(c: u8) -> Option<u8> { match c { b'0'..=b'9' => Some(c - b'0'), b'A'..=b'V' => Some(c - b'A' + 10), _ => None } }

#[kani::proof]
#[kani::unwind(12)]
fn name_adc16_4() {
    let b: [u8; 4] = kani::any();
    if let Ok(name) = core::str::from_utf8(&b) {
        let r = crate::midas::Adc16BankName::try_from(name);
        let row = alpha16_row_of_name(&b[1..3]);
        let spec = b[0] == b'B' && row.is_some() && hex_val(b[3]).is_some();
        assert!(r.is_ok() == spec);
        if let Ok(n) = r {
            assert!(n.board_id().name().as_bytes() == &b[1..3]);
            assert!(n.channel_id() == crate::alpha16::Adc16ChannelId::try_from(hex_val(b[3]).unwrap()).unwrap());
            kani::cover!(true, "accepting path reachable");
        }
    }
}

#[kani::proof]
#[kani::unwind(12)]
fn name_adc32_4() {
    let b: [u8; 4] = kani::any();
    if let Ok(name) = core::str::from_utf8(&b) {
        let r = crate::midas::Adc32BankName::try_from(name);
        let row = alpha16_row_of_name(&b[1..3]);
        let spec = b[0] == b'C' && row.is_some() && b32_val(b[3]).is_some();
        assert!(r.is_ok() == spec);
        if let Ok(n) = r {
            assert!(n.board_id().name().as_bytes() == &b[1..3]);
            assert!(n.channel_id() == crate::alpha16::Adc32ChannelId::try_from(b32_val(b[3]).unwrap()).unwrap());
            kani::cover!(true, "accepting path reachable");
        }
    }
}

#[kani::proof]
#[kani::unwind(73)]
fn name_padwing_4() {
    let b: [u8; 4] = kani::any();
    if let Ok(name) = core::str::from_utf8(&b) {
        let r = crate::midas::PadwingBankName::try_from(name);
        let row = pwb_row_of_name(&b[2..4]);
        let spec = b[0] == b'P' && b[1] == b'C' && row.is_some();
        assert!(r.is_ok() == spec);
        if let Ok(n) = r {
            assert!(n.board_id().name().as_bytes() == &b[2..4]);
            assert!(n.board_id().device_id() == SPEC_PADWING[row.unwrap()].2);
            kani::cover!(true, "accepting path reachable");
        }
    }
}

// name_padwing_4 over all 2^32 strings needs > 45 GB here.  What is proved instead: every 4-byte string that is not "PC" followed by
// two ASCII digits is rejected (the reject side never reaches the 64-row board table).  The 100 remaining strings are enumerated one
// by one by the native check c08_names (an exhaustive enumeration of that side; under CBMC even the concrete 100 x 64 string
// comparisons did not finish in 25 min).
#[kani::proof]
#[kani::unwind(8)]
fn name_padwing_reject() {
    let b: [u8; 4] = kani::any();
    kani::assume(!(b[0] == b'P' && b[1] == b'C' && b[2].is_ascii_digit() && b[3].is_ascii_digit()));
    if let Ok(name) = core::str::from_utf8(&b) {
        assert!(crate::midas::PadwingBankName::try_from(name).is_err());
    }
}

#[kani::proof]
#[kani::unwind(12)]
fn name_fixed_4() {
    use crate::midas::*;
    let b: [u8; 4] = kani::any();
    if let Ok(name) = core::str::from_utf8(&b) {
        assert!(TriggerBankName::try_from(name).is_ok() == (&b == b"ATAT"));
        assert!(Trb3BankName::try_from(name).is_ok() == (&b == b"TRBA"));
        assert!(Seq2BankName::try_from(name).is_ok() == (&b == b"SEQ2"));
        assert!(McVertexBankName::try_from(name).is_ok() == (&b == b"MCVX"));
        let c = ChronoboxBankName::try_from(name);
        assert!(c.is_ok() == (&b[..3] == b"CBF" && b'1' <= b[3] && b[3] <= b'4'));
        if let Ok(c) = c {
            let n = c.board_id.name().as_bytes();
            assert!(n.len() == 4 && &n[..3] == b"cb0" && n[3] == b[3]);
        }
    }
}

#[kani::proof]
#[kani::unwind(73)]
fn name_main_event_4() {
    use crate::midas::*;
    let b: [u8; 4] = kani::any();
    if let Ok(name) = core::str::from_utf8(&b) {
        let r = MainEventBankName::try_from(name);
        let a16 = Adc16BankName::try_from(name);
        let a32 = Adc32BankName::try_from(name);
        let pw = PadwingBankName::try_from(name);
        let fixed = &b == b"ATAT" || &b == b"TRBA" || &b == b"MCVX";
        // exactly the documented names, each with exactly one meaning, dispatch agrees with the specific parsers
        assert!(r.is_ok() == (a16.is_ok() || a32.is_ok() || pw.is_ok() || fixed));
        assert!((a16.is_ok() as u8) + (a32.is_ok() as u8) + (pw.is_ok() as u8) + (fixed as u8) <= 1);
        match r {
            Ok(MainEventBankName::Alpha16(Alpha16BankName::A16(n))) => assert!(a16.as_ref().map(|x| *x == n).unwrap_or(false)),
            Ok(MainEventBankName::Alpha16(Alpha16BankName::A32(n))) => assert!(a32.as_ref().map(|x| *x == n).unwrap_or(false)),
            Ok(MainEventBankName::Padwing(n)) => assert!(pw.as_ref().map(|x| *x == n).unwrap_or(false)),
            Ok(MainEventBankName::Trg(_)) => assert!(&b == b"ATAT"),
            Ok(MainEventBankName::Trb3(_)) => assert!(&b == b"TRBA"),
            Ok(MainEventBankName::McVertex(_)) => assert!(&b == b"MCVX"),
            Err(_) => {}
        }
        let al = Alpha16BankName::try_from(name);
        assert!(al.is_ok() == (a16.is_ok() || a32.is_ok()));
    }
}

// name_main_event_4 does not finish here (> 55 min).  The part of it that does not run the table-driven parsers:
// a 4-byte name whose first letter is none of A, B, C, P, T, M is rejected; with A / T / M it is accepted exactly for the one
// fixed name of that family.  (B, C and P hand over to the Alpha16 / PadWing parsers, which have their own harnesses.)
#[kani::proof]
#[kani::unwind(12)]
fn name_main_event_dispatch() {
    use crate::midas::*;
    let b: [u8; 4] = kani::any();
    kani::assume(b[0] != b'B' && b[0] != b'C' && b[0] != b'P');
    if let Ok(name) = core::str::from_utf8(&b) {
        let r = MainEventBankName::try_from(name);
        assert!(r.is_ok() == (&b == b"ATAT" || &b == b"TRBA" || &b == b"MCVX"));
        match r {
            Ok(MainEventBankName::Trg(_)) => assert!(&b == b"ATAT"),
            Ok(MainEventBankName::Trb3(_)) => assert!(&b == b"TRBA"),
            Ok(MainEventBankName::McVertex(_)) => assert!(&b == b"MCVX"),
            Ok(_) => assert!(false),
            Err(_) => {}
        }
    }
}

// other lengths (bounded: 0..=8 bytes): never a panic, always rejected
#[kani::proof]
#[kani::unwind(12)]
fn name_other_lengths() {
    use crate::midas::*;
    let b: [u8; 8] = kani::any();
    let n: usize = kani::any();
    kani::assume(n <= 8 && n != 4);
    if let Ok(name) = core::str::from_utf8(&b[..n]) {
        assert!(Adc16BankName::try_from(name).is_err());
        assert!(Adc32BankName::try_from(name).is_err());
        assert!(PadwingBankName::try_from(name).is_err());
        assert!(MainEventBankName::try_from(name).is_err());
        assert!(ChronoboxBankName::try_from(name).is_err());
        assert!(TriggerBankName::try_from(name).is_err());
    }
}

// ================================================================ ADC v3 at fixed lengths (C01, C02): bounded in the sample count
fn adc_check(b: &[u8]) {
    let r = crate::alpha16::AdcV3Packet::try_from(b);
    assert!(r.is_ok() == adc_ok(b));
    if let Ok(p) = r {
        assert!(adc_fields_ok(&p, b));
        kani::cover!(true, "accepting path reachable");
    }
}
#[kani::proof]
#[kani::unwind(10)]
fn adc_len016() { let b: [u8; 16] = kani::any(); adc_check(&b); }
#[kani::proof]
#[kani::unwind(10)]
fn adc_short_lengths() {
    // 0..=15 and 17..=35 bytes
    let b: [u8; 35] = kani::any();
    let n: usize = kani::any();
    kani::assume(n <= 35 && n != 16);
    let r = crate::alpha16::AdcV3Packet::try_from(&b[..n]);
    assert!(r.is_err());
    assert!(!adc_ok(&b[..n]));
}
#[kani::proof]
#[kani::unwind(70)]
fn adc_len164() { let b: [u8; 164] = kani::any(); adc_check(&b); }
#[kani::proof]
#[kani::unwind(70)]
fn adc_len166() { let b: [u8; 166] = kani::any(); adc_check(&b); }
#[kani::proof]
#[kani::unwind(70)]
fn adc_len165_162() {
    // odd number of sample bytes; 63 samples: always rejected, and the specification agrees
    let b: [u8; 165] = kani::any();
    assert!(crate::alpha16::AdcV3Packet::try_from(&b[..]).is_err() && !adc_ok(&b));
    assert!(crate::alpha16::AdcV3Packet::try_from(&b[..162]).is_err() && !adc_ok(&b[..162]));
}

// ================================================================ chunk at fixed lengths (C01, C03): bounded; CRC is the Kani stub
fn chunk_check(b: &[u8]) {
    let r = crate::padwing::Chunk::try_from(b);
    assert!(r.is_ok() == chunk_ok(b, crc32c::crc32c));
    if let Ok(c) = r {
        assert!(chunk_fields_ok(&c, b, crc32c::crc32c));
        kani::cover!(true, "accepting path reachable");
    }
}
#[kani::proof]
#[kani::unwind(73)]
fn chunk_len28() { let b: [u8; 28] = kani::any(); chunk_check(&b); }
#[kani::proof]
#[kani::unwind(73)]
fn chunk_len32() { let b: [u8; 32] = kani::any(); chunk_check(&b); }
#[kani::proof]
#[kani::unwind(73)]
fn chunk_other_lengths() {
    let b: [u8; 31] = kani::any();
    let n: usize = kani::any();
    kani::assume(n <= 31 && n != 28);
    assert!(crate::padwing::Chunk::try_from(&b[..n]).is_err());
    assert!(!chunk_ok(&b[..n], crc32c::crc32c));
}

// ================================================================ PWB v2 at fixed shapes (C01, C05): bounded (<= 2 channels sent)
fn pwb_packet<const N: usize>(sent_bits: &[u16]) -> [u8; N] {
    let mut b: [u8; N] = kani::any();
    // sent mask restricted to the given bit positions (each symbolic < 79); everything else symbolic
    let mut m: u128 = 0;
    for &p in sent_bits { m |= 1u128 << p; }
    let mut i = 0;
    while i < 10 { b[24 + i] = (m >> (8 * i)) as u8; i += 1; }
    b
}
fn pwb_check(b: &[u8]) {
    let r = crate::padwing::PwbV2Packet::try_from(b);
    assert!(r.is_ok() == pwb_ok(b));
    if let Ok(p) = r {
        assert!(pwb_fields_ok(&p, b));
        kani::cover!(true, "accepting path reachable");
    }
}
#[kani::proof]
#[kani::unwind(81)]
fn pwb_0ch() {
    // no channel sent: 56 bytes; threshold mask restricted to <= 2 bits to bound the second loop
    let mut b: [u8; 56] = pwb_packet::<56>(&[]);
    let (t0, t1): (u16, u16) = (kani::any(), kani::any());
    kani::assume(t0 < 80 && t1 < 80);
    let m: u128 = (1u128 << t0) | (1u128 << t1);
    let mut i = 0;
    while i < 10 { b[34 + i] = (m >> (8 * i)) as u8; i += 1; }
    pwb_check(&b);
}

// ================================================================ expressions cut out of the physics crate (C09, C10, C13)
mod frag_phys { include!(concat!(env!("VERIF_FRAG_DIR"), "/frag_phys.rs")); }

fn cal_spec(v: i16, baseline: i16, gain: f64) -> f64 { (v as f64 - baseline as f64) * gain }
fn pick_gain() -> f64 { let g: u8 = kani::any(); if g == 0 { 3.0 } else if g == 1 { -0.5 } else { 1.0 } }

#[kani::proof]
fn cal_wire_complete() {
    let (v, b): (i16, i16) = (kani::any(), kani::any());
    let g = pick_gain();
    let r = frag_phys::wire_cal(v, b, g);          // no panic for any sample / baseline
    assert!(r == cal_spec(v, b, g));               // (sample - baseline) * gain, exactly (integers < 2^17 are exact in f64)
}
#[kani::proof]
fn cal_pad_complete() {
    let (v, b): (i16, i16) = (kani::any(), kani::any());
    let g = pick_gain();
    let r = frag_phys::pad_cal(v, b, g);
    assert!(r == cal_spec(v, b, g));
}
#[kani::proof]
fn a_entry_complete() {
    let (i, j): (usize, usize) = (kani::any(), kani::any());
    kani::assume(i < 256 && j < 256);
    let d = if i > j { i - j } else { j - i };
    let spec = [1.0, -0.1275, -0.0365, -0.012, -0.0042];
    let r = frag_phys::a_entry(i, j);
    assert!(r == if d <= 4 { spec[d] } else { 0.0 });
    assert!(frag_phys::a_entry(j, i) == r);                                  // symmetric
    if i < 255 && j < 255 { assert!(frag_phys::a_entry(i + 1, j + 1) == r); }   // depends on the distance only
}

// ================================================================ the leaves that the Verus units assume (A-LIFT), on the real text
mod frag_leaves { use crate::padwing::ChannelId; include!(concat!(env!("VERIF_FRAG_DIR"), "/frag_leaves.rs")); }

#[kani::proof]
#[kani::unwind(66)]
fn leaf_adc_sum_concat() {
    let w: [i16; 64] = kani::any();
    let mut s: i64 = 0;
    let mut i = 0;
    while i < 64 { s += w[i] as i64; i += 1; }
    assert!(frag_leaves::adc_sum64(&w) as i64 == s);                 // lift_sum: r == sum64(waveform, 64), no overflow
    let (a, b): ([u8; 4], [u8; 4]) = (kani::any(), kani::any());
    let v = frag_leaves::adc_concat(a, b);                           // lift_concat: r@ == msw@ + lsw@
    assert!(v.len() == 8 && v[..4] == a && v[4..] == b);
}
#[kani::proof]
#[kani::unwind(12)]
fn leaf_pwb_masks() {
    let s: [u8; 44] = kani::any();
    assert!(frag_leaves::pwb_mask_sent(&s) == mask80(&s, 24));       // lift_mask_sent: r == mask80(slice@, 24)
    assert!(frag_leaves::pwb_mask_threshold(&s) == mask80(&s, 34));
}
#[kani::proof]
#[kani::unwind(8)]
fn leaf_small_vectors() {
    // lift_waveform: big-endian i16 view of slice[32..32+n]
    let s: [u8; 38] = kani::any();
    let n: usize = kani::any();
    kani::assume(n == 0 || n == 2 || n == 4 || n == 6);
    let w = frag_leaves::adc_wave(&s, n);
    assert!(w.len() == n / 2);
    let mut i = 0;
    while i < n / 2 { assert!(w[i] as i64 == bei16(&s, 32 + 2 * i)); i += 1; }
    // lift_samples: little-endian i16 view
    let d = frag_leaves::pwb_samples(&s[..n]);
    assert!(d.len() == n / 2);
    i = 0;
    while i < n / 2 { assert!(d[i] == lei16(&s, 2 * i)); i += 1; }
    // lift_ids_*: reversed, through the readout map; no unwrap failure for indices < 79
    let (x, y, z): (u16, u16, u16) = (kani::any(), kani::any(), kani::any());
    kani::assume(x < 79 && y < 79 && z < 79);
    let ids = frag_leaves::pwb_ids(vec![x, y, z]);
    use crate::padwing::ChannelId;
    assert!(ids.len() == 3 && ids[0] == ChannelId::try_from(z + 1).unwrap() && ids[1] == ChannelId::try_from(y + 1).unwrap()
        && ids[2] == ChannelId::try_from(x + 1).unwrap());      // reversed, each through the readout map (proved complete separately)
    // lift_any_nonzero
    let p: [u8; 3] = kani::any();
    let k: usize = kani::any();
    kani::assume(k <= 3);
    let pv = p[..k].to_vec();
    let mut any = false;
    i = 0;
    while i < k { any = any || p[i] != 0; i += 1; }
    assert!(frag_leaves::chunk_any_nonzero(&pv) == any);
}
