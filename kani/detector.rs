// Kani harnesses for alpha_g_detector.  This file is appended (as `mod verif_kani`) to a scratch
// copy of the working tree of /repo on every run; it is never part of /repo.
// Each harness fixes the *shape* of the input and leaves every byte symbolic.
#![allow(dead_code, unused_imports)]

use crate::trigger::*;

use crate as det;
include!("specs.rs");

// ---------------------------------------------------------------- C06 / C01: TRG, complete at 80 bytes
#[kani::proof]
fn trg_complete_80() {
    let b: [u8; 80] = kani::any();
    let r = TrgV3Packet::try_from(&b[..]);
    assert!(r.is_ok() == trg_ok(&b));
    if let Ok(p) = r {
        assert!(trg_fields_ok(&p, &b));
        kani::cover!(true, "accepting path reachable");
    }
    let w = TrgPacket::try_from(&b[..]);
    assert!(w.is_ok() == trg_ok(&b));
}

#[kani::proof]
fn trg_other_lengths() {
    // every length other than 80 up to 96 is rejected without touching the bytes
    let b: [u8; 96] = kani::any();
    let n: usize = kani::any();
    kani::assume(n <= 96 && n != 80);
    assert!(TrgV3Packet::try_from(&b[..n]).is_err());
}
