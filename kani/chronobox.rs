// Kani harnesses for the private element parsers of detector/src/chronobox.rs (declared as a child module of
// `chronobox` in the scratch copy, so `super::fifo_entry` / `super::scalers_block` are the real functions).
#![allow(dead_code, unused_imports)]
use super::*;

fn le24(b: &[u8]) -> u32 { (b[0] as u32) | ((b[1] as u32) << 8) | ((b[2] as u32) << 16) }

// C07 element level: every 4-byte word, complete
#[kani::proof]
#[kani::unwind(6)]
fn fifo_word_complete() {
    let b: [u8; 4] = kani::any();
    let mut input: &[u8] = &b;
    let r = fifo_entry(&mut input);
    let top = b[3];
    let is_marker = top == 0xFF;
    let is_ts = top & 0x80 == 0x80 && (top & 0x7F) < 59;
    assert!(r.is_ok() == (is_marker || is_ts));
    match r {
        Ok(FifoEntry::TimestampCounter(t)) => {
            assert!(is_ts && !is_marker);
            assert!(u8::from(t.channel) == top & 0x7F);
            assert!(t.timestamp() == le24(&b) & 0x00FF_FFFE);
            assert!(matches!(t.edge, EdgeType::Trailing) == (b[0] & 1 == 1));
            assert!(input.len() == 0);
            kani::cover!(true, "timestamp reachable");
        }
        Ok(FifoEntry::WrapAroundMarker(m)) => {
            assert!(is_marker);
            assert!(m.wrap_around_counter() == le24(&b) & 0x007F_FFFF);
            assert!(m.timestamp_top_bit == (b[2] & 0x80 == 0x80));
            assert!(input.len() == 0);
            kani::cover!(true, "marker reachable");
        }
        Err(_) => {}   // the element parser itself need not rewind on failure: that is the job of `repeat`/`alt` (A-WINNOW)
    }
}

// fewer than 4 bytes: failure
#[kani::proof]
#[kani::unwind(6)]
fn fifo_word_short() {
    let b: [u8; 3] = kani::any();
    let n: usize = kani::any();
    kani::assume(n <= 3);
    let mut input: &[u8] = &b[..n];
    assert!(fifo_entry(&mut input).is_err());
}

// a word followed by more bytes: exactly 4 consumed, the rest untouched
#[kani::proof]
#[kani::unwind(6)]
fn fifo_word_then_rest() {
    let b: [u8; 8] = kani::any();
    let mut input: &[u8] = &b;
    if fifo_entry(&mut input).is_ok() {
        assert!(input.len() == 4 && input[0] == b[4] && input[1] == b[5] && input[2] == b[6] && input[3] == b[7]);
    }
}

// scaler block: tag + 240 bytes, atomic
#[kani::proof]
#[kani::unwind(6)]
fn scalers_block_lengths() {
    let b: [u8; 248] = kani::any();
    let n: usize = kani::any();
    kani::assume(n == 0 || n == 3 || n == 4 || n == 243 || n == 244 || n == 245 || n == 248);
    let mut input: &[u8] = &b[..n];
    let r = scalers_block(&mut input);
    let tag = n >= 4 && b[0] == 0x3C && b[1] == 0 && b[2] == 0 && b[3] == 0xFE;
    assert!(r.is_ok() == (tag && n >= 244));
    if r.is_ok() { assert!(input.len() == n - 244); kani::cover!(true, "block reachable"); }
    // the tag word is not an entry: the grammar is unambiguous
    if tag { let mut i2: &[u8] = &b[..4]; assert!(fifo_entry(&mut i2).is_err()); }
}

// ================================================================ C20: which entries of a marker-delimited chunk get a CSV row
include!(concat!(env!("VERIF_FRAG_DIR"), "/frag_cb.rs"));

fn any_timestamp() -> FifoEntry {
    let c: u8 = kani::any();
    kani::assume(c < 59);
    FifoEntry::TimestampCounter(TimestampCounter {
        channel: ChannelId(c),
        timestamp: kani::any(),
        edge: if kani::any() { EdgeType::Leading } else { EdgeType::Trailing },
    })
}
fn any_marker() -> FifoEntry {
    FifoEntry::WrapAroundMarker(WrapAroundMarker { timestamp_top_bit: kani::any(), counter: kani::any() })
}
fn ts_key(e: &FifoEntry) -> Option<(u8, u32)> {
    match e { FifoEntry::TimestampCounter(t) => Some((t.channel.0, t.timestamp)), _ => None }
}
/// a piece as produced by `split_inclusive(is marker)`: n >= 1 entries, only the last may be a marker
fn piece(last_is_marker: bool) -> ([FifoEntry; 3], usize) {
    let n: usize = kani::any();
    kani::assume(1 <= n && n <= 3);
    let mut c = [any_timestamp(), any_timestamp(), any_timestamp()];
    if last_is_marker { c[n - 1] = any_marker(); }
    (c, n)
}
fn check_rows(c: &[FifoEntry]) {
    let (next, rows) = split_row(c);
    assert!(next.is_some() == matches!(c[c.len() - 1], FifoEntry::WrapAroundMarker(_)));
    // every timestamp of the chunk gets a row, in order, and nothing else does
    let mut expected = 0;
    let mut i = 0;
    while i < c.len() {
        if let Some(k) = ts_key(&c[i]) {
            assert!(expected < rows.len() && ts_key(&rows[expected]) == Some(k));
            expected += 1;
        }
        i += 1;
    }
    assert!(expected == rows.len());
}
#[kani::proof]
#[kani::unwind(5)]
fn split_row_marker_chunks() {
    let (c, n) = piece(true);
    check_rows(&c[..n]);
}
#[kani::proof]
#[kani::unwind(5)]
fn split_row_keeps_all_timestamps() {
    let (c, n) = piece(kani::any());
    check_rows(&c[..n]);
}

// The same claim without a loop, hence without the 3-entry bound: split_row returns the trailing marker (if the piece ends with
// one) and, as rows, the sub-slice that starts where the piece starts and has every entry but that marker.  A sub-slice with the same
// start and that length *is* those entries in order, so every timestamp of the piece gets a row and nothing else does.  The only
// bound left is the capacity of the backing array (64 entries); nothing is unwound.
#[kani::proof]
#[kani::unwind(66)]
fn split_row_structure_64() {
    // (the only loop is the construction of the symbolic array)
    let c: [FifoEntry; 64] = core::array::from_fn(|_| if kani::any() { any_timestamp() } else { any_marker() });
    let n: usize = kani::any();
    kani::assume(1 <= n && n <= 64);
    let piece = &c[..n];
    let last_is_marker = matches!(piece[n - 1], FifoEntry::WrapAroundMarker(_));
    let (next, rows) = split_row(piece);
    assert!(next.is_some() == last_is_marker);
    assert!(rows.as_ptr() == piece.as_ptr());
    assert!(rows.len() == if last_is_marker { n - 1 } else { n });
    if let (Some(m), FifoEntry::WrapAroundMarker(w)) = (next, piece[n - 1]) {
        assert!(m.counter == w.counter && m.timestamp_top_bit == w.timestamp_top_bit);
        kani::cover!(true, "marker-terminated piece reachable");
    }
}
