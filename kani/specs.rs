// Executable twins of the Verus spec predicates (contracts/lib/*_spec.rs), written from the property
// statements.  Included by the Kani harness module (`det` = crate) and by the replay crate (`det` = alpha_g_detector).
// ---------------------------------------------------------------- executable spec predicates
pub fn le32(s: &[u8], o: usize) -> u32 { u32::from_le_bytes([s[o], s[o + 1], s[o + 2], s[o + 3]]) }
pub fn le64(s: &[u8], o: usize) -> u64 { (le32(s, o) as u64) | ((le32(s, o + 4) as u64) << 32) }

pub fn trg_ok(s: &[u8]) -> bool {
    s.len() == 80
        && le32(s, 0) & 0x8000_0000 == 0
        && le32(s, 4) & 0xF000_0000 == 0x8000_0000
        && le32(s, 76) & 0xF000_0000 == 0xE000_0000
        && le32(s, 4) & 0x0FFF_FFFF == le32(s, 12) & 0x0FFF_FFFF
        && le32(s, 76) & 0x0FFF_FFFF == le32(s, 12) & 0x0FFF_FFFF
        && le32(s, 36) & 0x7FFF_0000 == 0
        && s[48] == 0 && s[49] == 0 && s[50] == 0 && s[51] == 0
        && le32(s, 52) & 0xFF00_0000 == 0
        && le32(s, 64) & 0xFFFF_FF00 == 0
        && le32(s, 68) & 0xFFFF_FF00 == 0
        && le32(s, 12) <= le32(s, 44) && le32(s, 44) <= le32(s, 40) && le32(s, 40) <= le32(s, 16)
}

pub fn trg_fields_ok(p: &det::trigger::TrgV3Packet, s: &[u8]) -> bool {
    p.udp_counter() == le32(s, 0)
        && p.timestamp() == le32(s, 8)
        && p.output_counter() == le32(s, 12)
        && p.input_counter() == le32(s, 16)
        && p.pulser_counter() == le32(s, 20)
        && p.trigger_bitmap() == le32(s, 24)
        && p.nim_bitmap() == le32(s, 28)
        && p.esata_bitmap() == le32(s, 32)
        && p.satisfied_mlu() == (le32(s, 36) & 0x8000_0000 != 0)
        && p.aw16_prompt() as u32 == le32(s, 36) & 0xFFFF
        && p.drift_veto_counter() == le32(s, 40)
        && p.scaledown_counter() == le32(s, 44)
        && p.aw16_multiplicity() as u32 == le32(s, 52) >> 16
        && p.aw16_bus() as u32 == le32(s, 52) & 0xFFFF
        && p.bsc64_bus() == le64(s, 56)
        && p.bsc64_multiplicity() as u32 == le32(s, 64) & 0xFF
        && p.coincidence_latch() as u32 == le32(s, 68) & 0xFF
        && p.firmware_revision() == le32(s, 72)
        && p.output_counter() <= p.scaledown_counter()
        && p.scaledown_counter() <= p.drift_veto_counter()
        && p.drift_veto_counter() <= p.input_counter()
}

