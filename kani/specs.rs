// Executable twins of the Verus spec predicates (contracts/lib/*_spec.rs), written from the property
// statements.  Included by the Kani harness module (`det` = crate) and by the replay crate (`det` = alpha_g_detector).
// ---------------------------------------------------------------- executable spec predicates
pub fn le32(s: &[u8], o: usize) -> u32 { u32::from_le_bytes([s[o], s[o + 1], s[o + 2], s[o + 3]]) }
pub fn le64(s: &[u8], o: usize) -> u64 { (le32(s, o) as u64) | ((le32(s, o + 4) as u64) << 32) }

pub fn trg_ok(s: &[u8]) -> bool {
    s.len() == 80
        && le32(s, 0) & 0x8000_0000 == 0
        && le32(s, 4) & 0xF000_0000 == 0x8000_0000
        && le32(s, 76) & 0xF000_0000 == 0xE000_0000
        && le32(s, 4) & 0x0FFF_FFFF == le32(s, 12) & 0x0FFF_FFFF
        && le32(s, 76) & 0x0FFF_FFFF == le32(s, 12) & 0x0FFF_FFFF
        && le32(s, 36) & 0x7FFF_0000 == 0
        && s[48] == 0 && s[49] == 0 && s[50] == 0 && s[51] == 0
        && le32(s, 52) & 0xFF00_0000 == 0
        && le32(s, 64) & 0xFFFF_FF00 == 0
        && le32(s, 68) & 0xFFFF_FF00 == 0
        && le32(s, 12) <= le32(s, 44) && le32(s, 44) <= le32(s, 40) && le32(s, 40) <= le32(s, 16)
}

pub fn trg_fields_ok(p: &det::trigger::TrgV3Packet, s: &[u8]) -> bool {
    p.udp_counter() == le32(s, 0)
        && p.timestamp() == le32(s, 8)
        && p.output_counter() == le32(s, 12)
        && p.input_counter() == le32(s, 16)
        && p.pulser_counter() == le32(s, 20)
        && p.trigger_bitmap() == le32(s, 24)
        && p.nim_bitmap() == le32(s, 28)
        && p.esata_bitmap() == le32(s, 32)
        && p.satisfied_mlu() == (le32(s, 36) & 0x8000_0000 != 0)
        && p.aw16_prompt() as u32 == le32(s, 36) & 0xFFFF
        && p.drift_veto_counter() == le32(s, 40)
        && p.scaledown_counter() == le32(s, 44)
        && p.aw16_multiplicity() as u32 == le32(s, 52) >> 16
        && p.aw16_bus() as u32 == le32(s, 52) & 0xFFFF
        && p.bsc64_bus() == le64(s, 56)
        && p.bsc64_multiplicity() as u32 == le32(s, 64) & 0xFF
        && p.coincidence_latch() as u32 == le32(s, 68) & 0xFF
        && p.firmware_revision() == le32(s, 72)
        && p.output_counter() <= p.scaledown_counter()
        && p.scaledown_counter() <= p.drift_veto_counter()
        && p.drift_veto_counter() <= p.input_counter()
}


// ---------------------------------------------------------------- ADC v3 (C02)
pub fn be16(s: &[u8], o: usize) -> i64 { (s[o] as i64) * 256 + s[o + 1] as i64 }
pub fn bei16(s: &[u8], o: usize) -> i64 { let v = be16(s, o); if v >= 32768 { v - 65536 } else { v } }
pub fn be32(s: &[u8], o: usize) -> i64 { be16(s, o) * 65536 + be16(s, o + 2) }
pub fn bei32(s: &[u8], o: usize) -> i64 { let v = be32(s, o); if v >= 0x8000_0000 { v - 0x1_0000_0000 } else { v } }

/// the eight Alpha16 boards of the documentation (name, MAC)
pub const SPEC_ALPHA16: [(&str, [u8; 6]); 8] = [
    ("09", [216, 128, 57, 104, 55, 76]),
    ("10", [216, 128, 57, 104, 170, 37]),
    ("11", [216, 128, 57, 104, 172, 127]),
    ("12", [216, 128, 57, 104, 79, 167]),
    ("13", [216, 128, 57, 104, 202, 166]),
    ("14", [216, 128, 57, 104, 142, 130]),
    ("16", [216, 128, 57, 104, 111, 162]),
    ("18", [216, 128, 57, 104, 142, 82]),
];
pub fn alpha16_known_mac(m: &[u8]) -> bool {
    let mut i = 0;
    while i < 8 {
        if m == &SPEC_ALPHA16[i].1[..] { return true; }
        i += 1;
    }
    false
}

pub fn adc_ok(s: &[u8]) -> bool {
    if s.len() < 16 { return false; }
    if !(s[0] == 1 && s[1] == 3 && s[4] <= 7) { return false; }
    if !(s[5] <= 15 || (128 <= s[5] && s[5] <= 159)) { return false; }
    let footer = be16(s, s.len() - 4);
    let keep_last = footer & 0xFFF;
    let keep_bit = (footer >> 12) & 1 == 1;
    let supp = (footer >> 13) & 1 == 1;
    if s.len() == 16 { return supp && !keep_bit && keep_last == 0; }
    if s.len() < 36 { return false; }
    if !(s[12] == 0 && s[13] == 0) { return false; }
    if !alpha16_known_mac(&s[14..20]) { return false; }
    if (s.len() - 36) % 2 != 0 { return false; }
    let n = ((s.len() - 36) / 2) as i64;
    if n < 64 { return false; }
    let mut sum: i64 = 0;
    let mut i = 0;
    while i < 64 { sum += bei16(s, 32 + 2 * i); i += 1; }
    if bei16(s, s.len() - 2) != sum.div_euclid(64) { return false; }
    let req = be16(s, 6);
    let last_index = (keep_last - 1) * 2 - 2;
    if supp { keep_bit && keep_last >= 34 && n > last_index && n <= req - 2 }
    else {
        (!keep_bit || (keep_last >= 34 && n > last_index)) && (keep_bit || keep_last == 0) && n == req - 2
    }
}

pub fn adc_fields_ok(p: &det::alpha16::AdcV3Packet, s: &[u8]) -> bool {
    use det::alpha16::ChannelId;
    let footer = be16(s, s.len() - 4);
    let chan_ok = match p.channel_id() {
        ChannelId::A16(c) => s[5] < 128 && det::alpha16::Adc16ChannelId::try_from(s[5]).map(|x| x == c).unwrap_or(false),
        ChannelId::A32(c) => s[5] >= 128 && det::alpha16::Adc32ChannelId::try_from(s[5] - 128).map(|x| x == c).unwrap_or(false),
    };
    let common = p.packet_type() == 1 && p.packet_version() == 3
        && p.accepted_trigger() as i64 == be16(s, 2)
        && det::alpha16::ModuleId::try_from(s[4]).map(|m| m == p.module_id()).unwrap_or(false)
        && chan_ok
        && p.requested_samples() as i64 == be16(s, 6)
        && p.suppression_baseline() as i64 == bei16(s, s.len() - 2)
        && p.keep_last() as i64 == footer & 0xFFF
        && p.keep_bit() == ((footer >> 12) & 1 == 1)
        && p.is_suppression_enabled() == ((footer >> 13) & 1 == 1);
    if s.len() == 16 {
        common && p.event_timestamp() as i64 == be32(s, 8) && p.board_id().is_none() && p.trigger_offset().is_none()
            && p.build_timestamp().is_none() && p.waveform().is_empty()
    } else {
        let n = (s.len() - 36) / 2;
        let mut wave_ok = p.waveform().len() == n;
        let mut i = 0;
        while wave_ok && i < n { wave_ok = p.waveform()[i] as i64 == bei16(s, 32 + 2 * i); i += 1; }
        common
            && p.event_timestamp() as u128 == (be32(s, 20) as u128) * 0x1_0000_0000u128 + be32(s, 8) as u128
            && p.board_id().map(|b| b.mac_address()[..] == s[14..20]).unwrap_or(false)
            && p.trigger_offset().map(|t| t as i64 == bei32(s, 24)).unwrap_or(false)
            && p.build_timestamp().map(|t| t as i64 == be32(s, 28)).unwrap_or(false)
            && wave_ok
    }
}

// ---------------------------------------------------------------- PadWing tables (C03/C05/C08), from the documentation
pub const SPEC_PADWING: [(&str, [u8; 6], u32); 71] = [
    ("00", [236, 40, 255, 135, 84, 2], 2281646316), ("01", [236, 40, 250, 162, 84, 2], 2734303468),
    ("02", [236, 40, 136, 108, 84, 2], 1820862700), ("03", [236, 40, 226, 49, 84, 2], 836905196),
    ("04", [236, 41, 12, 121, 84, 2], 2030840300), ("05", [236, 40, 211, 69, 84, 2], 1171466476),
    ("06", [236, 40, 218, 6, 84, 2], 114960620), ("07", [236, 40, 116, 164, 84, 2], 2759076076),
    ("08", [236, 40, 253, 139, 84, 2], 2348624108), ("10", [236, 40, 248, 75, 84, 2], 1274554604),
    ("11", [236, 40, 197, 187, 84, 2], 3150260460), ("12", [236, 41, 34, 206, 84, 2], 3458345452),
    ("13", [236, 40, 159, 252, 84, 2], 4238289132), ("14", [236, 41, 44, 52, 84, 2], 875309548),
    ("15", [236, 40, 219, 60, 84, 2], 1020995820), ("17", [236, 40, 153, 39, 84, 2], 664348908),
    ("18", [236, 40, 228, 87, 84, 2], 1474570476), ("19", [236, 40, 116, 173, 84, 2], 2910071020),
    ("20", [236, 40, 219, 80, 84, 2], 1356540140), ("21", [236, 40, 221, 26, 84, 2], 450701548),
    ("22", [236, 40, 113, 70, 84, 2], 1181821164), ("23", [236, 41, 39, 253, 84, 2], 4247202284),
    ("24", [236, 40, 226, 191, 84, 2], 3219269868), ("25", [236, 40, 212, 176, 84, 2], 2966694124),
    ("26", [236, 40, 188, 31, 84, 2], 532424940), ("27", [236, 40, 252, 239, 84, 2], 4026280172),
    ("29", [236, 40, 108, 189, 84, 2], 3177982188), ("33", [236, 40, 255, 150, 84, 2], 2533304556),
    ("34", [236, 40, 226, 52, 84, 2], 887236844), ("35", [236, 40, 137, 30, 84, 2], 512305388),
    ("36", [236, 40, 165, 153, 84, 2], 2577737964), ("37", [236, 41, 43, 61, 84, 2], 1026238956),
    ("39", [236, 41, 43, 253, 84, 2], 4247464428), ("40", [236, 40, 198, 81, 84, 2], 1371941100),
    ("41", [236, 40, 187, 198, 84, 2], 3334154476), ("42", [236, 41, 41, 188, 84, 2], 3156814316),
    ("44", [236, 40, 218, 198, 84, 2], 3336186092), ("45", [236, 41, 24, 143, 84, 2], 2400725484),
    ("46", [236, 40, 160, 64, 84, 2], 1084238060), ("49", [236, 40, 156, 87, 84, 2], 1469851884),
    ("52", [236, 41, 24, 28, 84, 2], 471345644), ("53", [236, 40, 183, 208, 84, 2], 3501664492),
    ("54", [236, 40, 113, 62, 84, 2], 1047603436), ("55", [236, 40, 255, 172, 84, 2], 2902403308),
    ("56", [236, 40, 135, 152, 84, 2], 2558994668), ("57", [236, 40, 128, 45, 84, 2], 763373804),
    ("58", [236, 41, 42, 70, 84, 2], 1177168364), ("60", [236, 40, 243, 36, 84, 2], 619915500),
    ("63", [236, 40, 108, 234, 84, 2], 3932956908), ("64", [236, 40, 110, 20, 84, 2], 342763756),
    ("65", [236, 40, 215, 15, 84, 2], 265758956), ("66", [236, 40, 197, 199, 84, 2], 3351587052),
    ("67", [236, 40, 183, 38, 84, 2], 649537772), ("68", [236, 40, 211, 91, 84, 2], 1540565228),
    ("69", [236, 40, 224, 249, 84, 2], 4192217324), ("70", [236, 40, 248, 99, 84, 2], 1677207788),
    ("71", [236, 40, 129, 16, 84, 2], 276900076), ("72", [236, 40, 241, 249, 84, 2], 4193331436),
    ("73", [236, 40, 113, 64, 84, 2], 1081157868), ("74", [236, 40, 252, 14, 84, 2], 251406572),
    ("75", [236, 41, 39, 26, 84, 2], 438774252), ("76", [236, 40, 244, 136, 84, 2], 2297702636),
    ("77", [236, 41, 17, 29, 84, 2], 487664108), ("78", [236, 41, 37, 14, 84, 2], 237316588),
    ("81", [236, 40, 137, 152, 84, 2], 2559125740), ("84", [236, 40, 135, 104, 84, 2], 1753688300),
    ("85", [236, 40, 216, 183, 84, 2], 3084396780), ("87", [236, 40, 244, 138, 84, 2], 2331257068),
    ("89", [57, 232, 246, 41, 216, 2], 704047161), ("90", [57, 232, 209, 204, 216, 2], 3436308537),
    ("91", [236, 40, 190, 114, 84, 2], 1925064940),
];
pub fn pwb_row_of_mac(m: &[u8]) -> Option<usize> {
    let mut i = 0;
    while i < 71 { if m == &SPEC_PADWING[i].1[..] { return Some(i); } i += 1; }
    None
}
pub fn pwb_row_of_device(d: u32) -> Option<usize> {
    let mut i = 0;
    while i < 71 { if d == SPEC_PADWING[i].2 { return Some(i); } i += 1; }
    None
}
pub fn pwb_row_of_name(n: &[u8]) -> Option<usize> {
    let mut i = 0;
    while i < 71 { if n == SPEC_PADWING[i].0.as_bytes() { return Some(i); } i += 1; }
    None
}
pub fn alpha16_row_of_name(n: &[u8]) -> Option<usize> {
    let mut i = 0;
    while i < 8 { if n == SPEC_ALPHA16[i].0.as_bytes() { return Some(i); } i += 1; }
    None
}

pub fn le16(s: &[u8], o: usize) -> u16 { (s[o] as u16) | ((s[o + 1] as u16) << 8) }
pub fn lei16(s: &[u8], o: usize) -> i16 { le16(s, o) as i16 }

// ---------------------------------------------------------------- chunk (C03); `crc` is whatever crc32c::crc32c the build links
pub fn chunk_ok(s: &[u8], crc: fn(&[u8]) -> u32) -> bool {
    if s.len() < 28 || s.len() % 4 != 0 { return false; }
    if pwb_row_of_device(le32(s, 0)).is_none() { return false; }
    if !(s[10] <= 3 && s[11] <= 1) { return false; }
    let l = le16(s, 14) as usize;
    if !(s.len() - 27 <= l && l <= s.len() - 24) { return false; }
    if le32(s, 16) != !crc(&s[0..16]) { return false; }
    let mut i = 20 + l;
    while i < s.len() - 4 { if s[i] != 0 { return false; } i += 1; }
    le32(s, s.len() - 4) == !crc(&s[20..s.len() - 4])
}
pub fn chunk_fields_ok(c: &det::padwing::Chunk, s: &[u8], crc: fn(&[u8]) -> u32) -> bool {
    let l = le16(s, 14) as usize;
    c.board_id().device_id() == le32(s, 0)
        && c.packet_sequence() == le32(s, 4)
        && c.channel_sequence() == le16(s, 8)
        && det::padwing::AfterId::try_from(s[10]).map(|a| a == c.after_id()).unwrap_or(false)
        && c.is_end_of_message() == (s[11] & 1 == 1)
        && c.chunk_id() == le16(s, 12)
        && c.payload() == &s[20..20 + l]
        && c.header_crc32c() == !crc(&s[0..16])
        && c.payload_crc32c() == !crc(&s[20..s.len() - 4])
}

// ---------------------------------------------------------------- PWB v2 (C05)
/// readout index (1..=79) -> (kind, number): kind 0 reset, 1 fpn, 2 pad
pub fn chan_of(i: u16) -> (u8, u16) {
    if i <= 3 { (0, i) }
    else if i == 16 { (1, 1) } else if i == 29 { (1, 2) } else if i == 54 { (1, 3) } else if i == 67 { (1, 4) }
    else { (2, i - 3 - (i > 16) as u16 - (i > 29) as u16 - (i > 54) as u16 - (i > 67) as u16) }
}
pub fn chan_key(c: det::padwing::ChannelId) -> (u8, u16) {
    use det::padwing::*;
    // the inner numbers are private; recover them by comparing against every valid constructor value
    match c {
        ChannelId::Reset(r) => { let mut n = 1; while n <= 3 { if ResetChannelId::try_from(n).map(|x| x == r).unwrap_or(false) { return (0, n); } n += 1; } (0, 0) }
        ChannelId::Fpn(f) => { let mut n = 1; while n <= 4 { if FpnChannelId::try_from(n).map(|x| x == f).unwrap_or(false) { return (1, n); } n += 1; } (1, 0) }
        ChannelId::Pad(p) => { let mut n = 1; while n <= 72 { if PadChannelId::try_from(n).map(|x| x == p).unwrap_or(false) { return (2, n); } n += 1; } (2, 0) }
    }
}
pub fn mask80(s: &[u8], o: usize) -> u128 {
    let mut m: u128 = 0;
    let mut i = 0;
    while i < 10 { m |= (s[o + i] as u128) << (8 * i); i += 1; }
    m
}
pub fn pwb_ok(s: &[u8]) -> bool {
    if s.len() < 56 { return false; }
    if s[0] != 2 || !(65 <= s[1] && s[1] <= 68) || s[2] != 0 || !(s[3] == 0 || s[3] == 1 || s[3] == 3) { return false; }
    if pwb_row_of_mac(&s[4..10]).is_none() { return false; }
    if s[18] != 0 || s[19] != 0 { return false; }
    if le16(s, 20) > 511 || le16(s, 22) > 511 { return false; }
    if s[33] & 128 != 0 || s[43] & 128 != 0 { return false; }
    let samples = le16(s, 22) as usize;
    let bpc = 4 + 2 * (samples + samples % 2);
    let mask = mask80(s, 24);
    let k = mask.count_ones() as usize;
    if s.len() != 52 + k * bpc + 4 { return false; }
    let mut j = 0;
    let mut bitpos = 0u16;
    while bitpos < 79 {
        if (mask >> bitpos) & 1 == 1 {
            let off = 52 + j * bpc;
            if le16(s, off) != bitpos + 1 || le16(s, off + 2) as usize != samples { return false; }
            if samples % 2 != 0 && (s[off + 4 + 2 * samples] != 0 || s[off + 4 + 2 * samples + 1] != 0) { return false; }
            j += 1;
        }
        bitpos += 1;
    }
    s[s.len() - 4..] == [204, 204, 204, 204]
}
pub fn pwb_fields_ok(p: &det::padwing::PwbV2Packet, s: &[u8]) -> bool {
    use det::padwing::*;
    let after = match s[1] { 65 => AfterId::A, 66 => AfterId::B, 67 => AfterId::C, _ => AfterId::D };
    let samples = le16(s, 22) as usize;
    let spc = 2 + samples + samples % 2;
    let mut ok = p.packet_version() == 2
        && p.after_id() == after
        && matches!(p.compression(), Compression::Raw)
        && match p.trigger_source() { Trigger::External => s[3] == 0, Trigger::Manual => s[3] == 1, Trigger::InternalPulse => s[3] == 3 }
        && p.board_id().mac_address()[..] == s[4..10]
        && p.trigger_delay() == le16(s, 10)
        && p.trigger_timestamp() == le64(s, 12)
        && p.last_sca_cell() == le16(s, 20)
        && p.requested_samples() == samples
        && p.event_counter() == Some(le32(s, 44)).unwrap()
        && p.fifo_max_depth() == le16(s, 48)
        && p.event_descriptor_write_depth() == s[50]
        && p.event_descriptor_read_depth() == s[51];
    // channel lists = set bits ascending through the readout map; waveform of the j-th sent channel = its block
    let sent = mask80(s, 24);
    let thr = mask80(s, 34);
    let (mut js, mut jt) = (0usize, 0usize);
    let mut b = 0u16;
    while b < 79 {
        if (sent >> b) & 1 == 1 {
            ok = ok && js < p.channels_sent().len() && chan_key(p.channels_sent()[js]) == chan_of(b + 1);
            if ok {
                match p.waveform_at(p.channels_sent()[js]) {
                    Some(w) => {
                        ok = ok && w.len() == samples;
                        let mut i = 0;
                        while ok && i < samples { ok = w[i] == lei16(s, 52 + 2 * (spc * js + 2 + i)); i += 1; }
                    }
                    None => ok = false,
                }
            }
            js += 1;
        } else if ok {
            if let Ok(c) = ChannelId::try_from(b + 1) { ok = p.waveform_at(c).is_none(); }
        }
        if (thr >> b) & 1 == 1 {
            ok = ok && jt < p.channels_over_threshold().len() && chan_key(p.channels_over_threshold()[jt]) == chan_of(b + 1);
            jt += 1;
        }
        b += 1;
    }
    ok && js == p.channels_sent().len() && jt == p.channels_over_threshold().len()
}
