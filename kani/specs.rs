// Executable twins of the Verus spec predicates (contracts/lib/*_spec.rs), written from the property
// statements.  Included by the Kani harness module (`det` = crate) and by the replay crate (`det` = alpha_g_detector).
// ---------------------------------------------------------------- executable spec predicates
pub fn le32(s: &[u8], o: usize) -> u32 { u32::from_le_bytes([s[o], s[o + 1], s[o + 2], s[o + 3]]) }
pub fn le64(s: &[u8], o: usize) -> u64 { (le32(s, o) as u64) | ((le32(s, o + 4) as u64) << 32) }

pub fn trg_ok(s: &[u8]) -> bool {
    s.len() == 80
        && le32(s, 0) & 0x8000_0000 == 0
        && le32(s, 4) & 0xF000_0000 == 0x8000_0000
        && le32(s, 76) & 0xF000_0000 == 0xE000_0000
        && le32(s, 4) & 0x0FFF_FFFF == le32(s, 12) & 0x0FFF_FFFF
        && le32(s, 76) & 0x0FFF_FFFF == le32(s, 12) & 0x0FFF_FFFF
        && le32(s, 36) & 0x7FFF_0000 == 0
        && s[48] == 0 && s[49] == 0 && s[50] == 0 && s[51] == 0
        && le32(s, 52) & 0xFF00_0000 == 0
        && le32(s, 64) & 0xFFFF_FF00 == 0
        && le32(s, 68) & 0xFFFF_FF00 == 0
        && le32(s, 12) <= le32(s, 44) && le32(s, 44) <= le32(s, 40) && le32(s, 40) <= le32(s, 16)
}

pub fn trg_fields_ok(p: &det::trigger::TrgV3Packet, s: &[u8]) -> bool {
    p.udp_counter() == le32(s, 0)
        && p.timestamp() == le32(s, 8)
        && p.output_counter() == le32(s, 12)
        && p.input_counter() == le32(s, 16)
        && p.pulser_counter() == le32(s, 20)
        && p.trigger_bitmap() == le32(s, 24)
        && p.nim_bitmap() == le32(s, 28)
        && p.esata_bitmap() == le32(s, 32)
        && p.satisfied_mlu() == (le32(s, 36) & 0x8000_0000 != 0)
        && p.aw16_prompt() as u32 == le32(s, 36) & 0xFFFF
        && p.drift_veto_counter() == le32(s, 40)
        && p.scaledown_counter() == le32(s, 44)
        && p.aw16_multiplicity() as u32 == le32(s, 52) >> 16
        && p.aw16_bus() as u32 == le32(s, 52) & 0xFFFF
        && p.bsc64_bus() == le64(s, 56)
        && p.bsc64_multiplicity() as u32 == le32(s, 64) & 0xFF
        && p.coincidence_latch() as u32 == le32(s, 68) & 0xFF
        && p.firmware_revision() == le32(s, 72)
        && p.output_counter() <= p.scaledown_counter()
        && p.scaledown_counter() <= p.drift_veto_counter()
        && p.drift_veto_counter() <= p.input_counter()
}


// ---------------------------------------------------------------- ADC v3 (C02)
pub fn be16(s: &[u8], o: usize) -> i64 { (s[o] as i64) * 256 + s[o + 1] as i64 }
pub fn bei16(s: &[u8], o: usize) -> i64 { let v = be16(s, o); if v >= 32768 { v - 65536 } else { v } }
pub fn be32(s: &[u8], o: usize) -> i64 { be16(s, o) * 65536 + be16(s, o + 2) }
pub fn bei32(s: &[u8], o: usize) -> i64 { let v = be32(s, o); if v >= 0x8000_0000 { v - 0x1_0000_0000 } else { v } }

/// the eight Alpha16 boards of the documentation (name, MAC)
pub const SPEC_ALPHA16: [(&str, [u8; 6]); 8] = [
    ("09", [216, 128, 57, 104, 55, 76]),
    ("10", [216, 128, 57, 104, 170, 37]),
    ("11", [216, 128, 57, 104, 172, 127]),
    ("12", [216, 128, 57, 104, 79, 167]),
    ("13", [216, 128, 57, 104, 202, 166]),
    ("14", [216, 128, 57, 104, 142, 130]),
    ("16", [216, 128, 57, 104, 111, 162]),
    ("18", [216, 128, 57, 104, 142, 82]),
];
pub fn alpha16_known_mac(m: &[u8]) -> bool {
    let mut i = 0;
    while i < 8 {
        if m == &SPEC_ALPHA16[i].1[..] { return true; }
        i += 1;
    }
    false
}

pub fn adc_ok(s: &[u8]) -> bool {
    if s.len() < 16 { return false; }
    if !(s[0] == 1 && s[1] == 3 && s[4] <= 7) { return false; }
    if !(s[5] <= 15 || (128 <= s[5] && s[5] <= 159)) { return false; }
    let footer = be16(s, s.len() - 4);
    let keep_last = footer & 0xFFF;
    let keep_bit = (footer >> 12) & 1 == 1;
    let supp = (footer >> 13) & 1 == 1;
    if s.len() == 16 { return supp && !keep_bit && keep_last == 0; }
    if s.len() < 36 { return false; }
    if !(s[12] == 0 && s[13] == 0) { return false; }
    if !alpha16_known_mac(&s[14..20]) { return false; }
    if (s.len() - 36) % 2 != 0 { return false; }
    let n = ((s.len() - 36) / 2) as i64;
    if n < 64 { return false; }
    let mut sum: i64 = 0;
    let mut i = 0;
    while i < 64 { sum += bei16(s, 32 + 2 * i); i += 1; }
    if bei16(s, s.len() - 2) != sum.div_euclid(64) { return false; }
    let req = be16(s, 6);
    let last_index = (keep_last - 1) * 2 - 2;
    if supp { keep_bit && keep_last >= 34 && n > last_index && n <= req - 2 }
    else {
        (!keep_bit || (keep_last >= 34 && n > last_index)) && (keep_bit || keep_last == 0) && n == req - 2
    }
}

pub fn adc_fields_ok(p: &det::alpha16::AdcV3Packet, s: &[u8]) -> bool {
    use det::alpha16::ChannelId;
    let footer = be16(s, s.len() - 4);
    let chan_ok = match p.channel_id() {
        ChannelId::A16(c) => s[5] < 128 && det::alpha16::Adc16ChannelId::try_from(s[5]).map(|x| x == c).unwrap_or(false),
        ChannelId::A32(c) => s[5] >= 128 && det::alpha16::Adc32ChannelId::try_from(s[5] - 128).map(|x| x == c).unwrap_or(false),
    };
    let common = p.packet_type() == 1 && p.packet_version() == 3
        && p.accepted_trigger() as i64 == be16(s, 2)
        && det::alpha16::ModuleId::try_from(s[4]).map(|m| m == p.module_id()).unwrap_or(false)
        && chan_ok
        && p.requested_samples() as i64 == be16(s, 6)
        && p.suppression_baseline() as i64 == bei16(s, s.len() - 2)
        && p.keep_last() as i64 == footer & 0xFFF
        && p.keep_bit() == ((footer >> 12) & 1 == 1)
        && p.is_suppression_enabled() == ((footer >> 13) & 1 == 1);
    if s.len() == 16 {
        common && p.event_timestamp() as i64 == be32(s, 8) && p.board_id().is_none() && p.trigger_offset().is_none()
            && p.build_timestamp().is_none() && p.waveform().is_empty()
    } else {
        let n = (s.len() - 36) / 2;
        let mut wave_ok = p.waveform().len() == n;
        let mut i = 0;
        while wave_ok && i < n { wave_ok = p.waveform()[i] as i64 == bei16(s, 32 + 2 * i); i += 1; }
        common
            && p.event_timestamp() as u128 == (be32(s, 20) as u128) * 0x1_0000_0000u128 + be32(s, 8) as u128
            && p.board_id().map(|b| b.mac_address()[..] == s[14..20]).unwrap_or(false)
            && p.trigger_offset().map(|t| t as i64 == bei32(s, 24)).unwrap_or(false)
            && p.build_timestamp().map(|t| t as i64 == be32(s, 28)).unwrap_or(false)
            && wave_ok
    }
}
