import struct, sys
def bank(name, data):
    b = name.encode() + struct.pack('<II', 1, len(data)) + data
    return b + b'\0' * ((8 - len(data) % 8) % 8)
def event(id, serial, ts, banks):
    allb = b''.join(banks)
    return struct.pack('<HHIIIII', id, 0, serial, ts, len(allb) + 8, len(allb), 17) + allb
def midas(run, t0, events):
    f = b''
    for marker, t in ((0x8000, t0), (0x8001, t0 + 1)):
        if marker == 0x8001:
            f += b''.join(events)
        f += struct.pack('<HHIII', marker, 0x494D, run, t, 2) + b'{}'
    return f
def marker(c): return struct.pack('<I', 0xFF000000 | ((c & 1) << 23) | c)
def ts(ch, tick, trailing=False): return struct.pack('<I', ((0x80 | ch) << 24) | ((tick & 0xFFFFFE) | (1 if trailing else 0)))
H = 1 << 23
words = marker(0) + ts(3, H + 100) + marker(1) + ts(4, 2 * H + 200) + ts(5, 2 * H + 300)
open(sys.argv[1], 'wb').write(midas(42, 100, [event(4, 0, 10, [bank('CBF1', words)])]))
print("stream: marker0, ts(ch3), marker1, ts(ch4), ts(ch5)  -> 3 timestamps after the counter-0 marker")
