//! Native replay of counterexamples and bounded cross-checks against the real crates.
//!   verif_replay confirm <witness.json>     run the real function on the witness, compare with the spec predicate
//!   verif_replay run <check> <seed> <tier>  bounded native cross-check (prints one JSON object)
#![allow(dead_code)]
use alpha_g_detector as det;
use serde_json::{json, Value};
use std::panic;

include!("../../kani/specs.rs");
mod ops;
mod native;
mod tables;
mod ring;
#[cfg(feature = "physics")]
mod phys;
#[cfg(feature = "physics")]
mod evt;
#[cfg(feature = "physics")]
mod drift;
#[cfg(feature = "physics")]
mod recon;
#[cfg(feature = "physics")]
mod hough;

fn main() {
    let args: Vec<String> = std::env::args().collect();
    panic::set_hook(Box::new(|_| {}));
    let out = match args.get(1).map(|s| s.as_str()) {
        Some("confirm") => {
            let txt = std::fs::read_to_string(&args[2]).expect("witness file");
            let w: Value = serde_json::from_str(&txt).expect("json");
            ops::confirm(&w)
        }
        Some("run") => {
            let seed: u64 = args.get(3).and_then(|s| s.parse().ok()).unwrap_or(0);
            let tier = args.get(4).map(|s| s.as_str()).unwrap_or("quick");
            ops::run(&args[2], seed, tier)
        }
        _ => json!({"error": "usage"}),
    };
    println!("{}", out);
}
