use super::*;
use std::panic::{catch_unwind, AssertUnwindSafe};

pub fn hex(s: &str) -> Vec<u8> {
    (0..s.len() / 2).map(|i| u8::from_str_radix(&s[2 * i..2 * i + 2], 16).unwrap()).collect()
}
pub fn to_hex(b: &[u8]) -> String {
    b.iter().map(|x| format!("{:02x}", x)).collect()
}

/// outcome of running real code: Ok(description) or the panic message
pub fn guarded<T>(f: impl FnOnce() -> T) -> Result<T, String> {
    catch_unwind(AssertUnwindSafe(f)).map_err(|e| {
        if let Some(s) = e.downcast_ref::<&str>() { s.to_string() }
        else if let Some(s) = e.downcast_ref::<String>() { s.clone() }
        else { "panic".to_string() }
    })
}

pub fn confirm(w: &Value) -> Value {
    let op = w["op"].as_str().unwrap_or("");
    match op {
        "trg" => {
            let b = hex(w["bytes"].as_str().unwrap_or(""));
            let real = guarded(|| det::trigger::TrgV3Packet::try_from(&b[..]));
            let spec = trg_ok(&b);
            match real {
                Err(p) => json!({"contradicts": true, "real": format!("panic: {p}"), "spec": format!("trg_ok={spec}")}),
                Ok(r) => {
                    let fields = r.as_ref().map(|p| trg_fields_ok(p, &b)).unwrap_or(true);
                    json!({"contradicts": r.is_ok() != spec || !fields,
                           "real": format!("{:?}", r.as_ref().map(|_| "Ok").map_err(|e| e.to_string())),
                           "spec": format!("trg_ok={spec} fields_ok={fields}")})
                }
            }
        }
        "adc" => {
            let b = hex(w["bytes"].as_str().unwrap_or(""));
            let real = guarded(|| det::alpha16::AdcV3Packet::try_from(&b[..]));
            let spec = adc_ok(&b);
            match real {
                Err(p) => json!({"contradicts": true, "real": format!("panic: {p}"), "spec": format!("adc_ok={spec}")}),
                Ok(r) => {
                    let fields = r.as_ref().map(|p| adc_fields_ok(p, &b)).unwrap_or(true);
                    json!({"contradicts": r.is_ok() != spec || !fields,
                           "real": format!("{:?}", r.as_ref().map(|p| format!("Ok requested_samples={} waveform.len={}", p.requested_samples(), p.waveform().len())).map_err(|e| e.to_string())),
                           "spec": format!("adc_ok={spec} fields_ok={fields}")})
                }
            }
        }
        #[cfg(feature = "physics")]
        "c09_pad" => crate::phys::confirm_pad(w),
        #[cfg(feature = "physics")]
        "c13_full_ring" => crate::phys::confirm_full_ring(w),
        #[cfg(feature = "physics")]
        "event" => crate::phys::confirm_event(w),
        "name" => crate::tables::confirm_name(w),
        "chunk" => {
            let b = hex(w["bytes"].as_str().unwrap_or(""));
            let real = guarded(|| det::padwing::Chunk::try_from(&b[..]));
            let spec = chunk_ok(&b, crc32c::crc32c);
            match real {
                Err(p) => json!({"contradicts": true, "real": format!("panic: {p}"), "spec": format!("chunk_ok={spec}")}),
                Ok(r) => {
                    let fields = r.as_ref().map(|c| guarded(|| chunk_fields_ok(c, &b, crc32c::crc32c)).unwrap_or(false)).unwrap_or(true);
                    json!({"contradicts": r.is_ok() != spec || !fields, "real": format!("{:?}", r.as_ref().map(|c| format!("Ok payload.len={}", c.payload().len())).map_err(|e| e.to_string())),
                           "spec": format!("chunk_ok={spec} fields_ok={fields} (real CRC-32C)")})
                }
            }
        }
        "pwb" => {
            let b = hex(w["bytes"].as_str().unwrap_or(""));
            let real = guarded(|| det::padwing::PwbV2Packet::try_from(&b[..]));
            let spec = pwb_ok(&b);
            match real {
                Err(p) => json!({"contradicts": true, "real": format!("panic: {p}"), "spec": format!("pwb_ok={spec}")}),
                Ok(r) => {
                    let fields = r.as_ref().map(|p| guarded(|| pwb_fields_ok(p, &b)).unwrap_or(false)).unwrap_or(true);
                    json!({"contradicts": r.is_ok() != spec || !fields, "real": format!("{:?}", r.as_ref().map(|p| format!("Ok channels_sent={}", p.channels_sent().len())).map_err(|e| e.to_string())),
                           "spec": format!("pwb_ok={spec} fields_ok={fields}")})
                }
            }
        }
        "fifo" => native::confirm_fifo(w),
        "chunks" => native::confirm_chunks(w),
        _ => json!({"error": format!("unknown op {op}")}),
    }
}

pub fn run(name: &str, _seed: u64, tier: &str) -> Value {
    match name {
        "c07_stream" => native::c07_stream(tier),
        "c04_enum" => native::c04_enum(tier),
        "c08_tables" => native::c08_tables(tier),
        #[cfg(feature = "physics")]
        "c13_sym" => crate::phys::c13_sym(tier),
        #[cfg(feature = "physics")]
        "c09_event" => crate::phys::c09_event(tier),
        #[cfg(feature = "physics")]
        "c10_table" => crate::phys::c10_table(tier),
        #[cfg(feature = "physics")]
        "c19_sort" => crate::phys::c19_sort(tier),
        #[cfg(feature = "physics")]
        "c18_grid" => crate::drift::c18_grid(tier),
        #[cfg(feature = "physics")]
        "c15_cluster" => crate::recon::c15_cluster(tier, _seed),
        #[cfg(feature = "physics")]
        "c15_vertex" => crate::recon::c15_vertex(tier, _seed),
        #[cfg(feature = "physics")]
        "c15_acc" => crate::hough::c15_acc(tier, _seed),
        "c13_dims" => crate::ring::c13_dims(tier),
        "c02_table" => crate::tables::c02_table(tier),
        "c03_table" => crate::tables::c03_table(tier),
        "c05_table" => crate::tables::c05_table(tier),
        "c06_table" => crate::tables::c06_table(tier),
        "c08_names" => crate::tables::c08_names(tier),
        _ => json!({"error": format!("unknown check {name}")}),
    }
}
