//! C18, bounded: the numeric half of the drift-lookup property, measured on the shipped table through the public conversion
//! `SpacePoint::try_from(Avalanche)`.  The table is read a second time here, from the JSON file, with serde_json only.
//! What the Verus unit `drift` proves (which knots are compared, which pair is interpolated) is not repeated; this check covers
//! what is a fact about the shipped numbers and the float arithmetic: radius range, monotonicity, step size, symmetry, knots,
//! Lorentz-correction range -- and the shape assumptions (`wf_tables`) that the proof takes for granted.
use super::*;
use alpha_g_physics::{Avalanche, SpacePoint, TryDriftLookupError};
use uom::si::angle::radian;
use uom::si::f64::{Angle, Length, Time};
use uom::si::length::meter;
use uom::si::time::second;

/// knot intervals (slice, knot) of the shipped table whose radius step is >= 0.5 mm: recorded finding, see known_findings.txt
const KNOWN_STEPS: &str = include_str!("../../known_c18_steps.txt");

type Table = Vec<[f64; 3]>;

fn load() -> Result<Vec<(Table, f64)>, String> {
    let dir = std::env::var("VERIF_REPO_DIR").unwrap_or_else(|_| env!("VERIF_REPO_DIR").to_string());
    let p = format!("{dir}/physics/data/simulation/drift_table/drift_1T_70Ar_30CO2.json");
    let txt = std::fs::read_to_string(&p).map_err(|e| format!("{p}: {e}"))?;
    let v: Value = serde_json::from_str(&txt).map_err(|e| format!("{p}: {e}"))?;
    let mut out = Vec::new();
    for s in v.as_array().ok_or("table: not an array")? {
        let tab = s[0].as_array().ok_or("slice: no table")?;
        let z = s[1].as_f64().ok_or("slice: no bound")?;
        let mut t = Vec::new();
        for k in tab {
            t.push([k[0].as_f64().ok_or("knot")?, k[1].as_f64().ok_or("knot")?, k[2].as_f64().ok_or("knot")?]);
        }
        out.push((t, z));
    }
    Ok(out)
}

fn up(x: f64) -> f64 { if x == 0.0 { f64::from_bits(1) } else if x > 0.0 { f64::from_bits(x.to_bits() + 1) } else { f64::from_bits(x.to_bits() - 1) } }
fn down(x: f64) -> f64 { -up(-x) }

enum Out { Ok(f64, f64, f64), ZErr, TErr, Panic(String) }

const PHI0: f64 = 1.0;

fn lookup(z: f64, t: f64) -> Out {
    let a = Avalanche { t: Time::new::<second>(t), phi: Angle::new::<radian>(PHI0), z: Length::new::<meter>(z), wire_amplitude: 1.0, pad_amplitude: 1.0 };
    match crate::ops::guarded(move || SpacePoint::try_from(a)) {
        Err(p) => Out::Panic(p),
        Ok(Ok(sp)) => Out::Ok(sp.r.get::<meter>(), sp.phi.get::<radian>(), sp.z.get::<meter>()),
        Ok(Err(TryDriftLookupError::AxialPositionOutOfRange(_))) => Out::ZErr,
        Ok(Err(TryDriftLookupError::DriftTimeOutOfRange(_))) => Out::TErr,
    }
}

pub fn c18_grid(tier: &str) -> Value {
    let name = "c18_grid";
    let target = "SpacePoint::try_from(Avalanche) -> DriftTables::at -> DriftTable::at on the shipped table";
    let bound = "every z-slice boundary (exact, +-1 ulp), slice midpoints, both signs of z; per slice every tabulated time (exact, +-1 ulp), every knot midpoint, \
                 one value before the first and after the last knot, t = -1e-6 and 5e-6 (about 2.3 million lookups); \
                 three knots of every slice again in descending order of |z| and with outermost look-ups in between";
    let tabs = match load() { Ok(t) => t, Err(e) => return json!({"error": e}) };
    let fail = |reason: String, z: f64, t: f64| json!({"status": "failed", "target": target, "bound": bound, "check": name, "reason": reason.clone(),
        "witness": {"op": "rerun_native", "check": name, "failing_case": reason, "z": z, "t": t, "z_bits": format!("{:016x}", z.to_bits()), "t_bits": format!("{:016x}", t.to_bits())}});
    // ---- shape assumed by the proof (wf_tables) and by the comments in drift.rs
    if tabs.is_empty() { return fail("shipped table has no z slice".into(), 0.0, 0.0); }
    for (s, (tab, z)) in tabs.iter().enumerate() {
        if tab.len() < 2 || z.is_nan() || tab.iter().any(|k| k.iter().any(|x| x.is_nan())) {
            return fail(format!("slice {s}: fewer than 2 knots or NaN entries (wf_tables assumed by unit drift)"), *z, 0.0);
        }
        if tab.windows(2).any(|w| !(w[0][0] < w[1][0])) { return fail(format!("slice {s}: times not strictly ascending"), *z, 0.0); }
        if s > 0 && !(tabs[s - 1].1 < *z) { return fail(format!("slice {s}: z bounds not ascending"), *z, 0.0); }
    }
    let known: std::collections::HashSet<(usize, usize)> = KNOWN_STEPS.lines().filter(|l| !l.starts_with('#') && !l.trim().is_empty())
        .filter_map(|l| { let mut it = l.split_whitespace(); Some((it.next()?.parse().ok()?, it.next()?.parse().ok()?)) }).collect();
    let zmax = tabs[tabs.len() - 1].1;
    let expected_slice = |za: f64| tabs.iter().position(|(_, b)| *b >= za);
    let mut cases = 0u64;
    let mut known_hit: std::collections::BTreeSet<(usize, usize)> = Default::default();
    let mut worst_known = 0f64;
    let _ = tier;
    let stride = 1;      // the whole grid takes well under a second: both tiers run all of it
    for s in 0..tabs.len() {
        let lo = if s == 0 { 0.0 } else { tabs[s - 1].1 };
        let hi = tabs[s].1;
        let mid = 0.5 * (lo + hi);
        let mut zs = vec![(mid, true), (hi, false), (down(hi), false)];
        zs.push((if s == 0 { 0.0 } else { up(lo) }, false));
        for (za, full) in zs {
            let e = match expected_slice(za) { Some(e) => e, None => return fail(format!("oracle: no slice for |z|={za}"), za, 0.0) };
            let tab = &tabs[e].0;
            let (rmin, rmax) = tab.iter().fold((f64::MAX, f64::MIN), |(a, b), k| (a.min(k[1]), b.max(k[1])));
            let cmax = tab.iter().fold(f64::MIN, |a, k| a.max(k[2]));
            let (t0, tn) = (tab[0][0], tab[tab.len() - 1][0]);
            // time samples, ascending
            let mut ts: Vec<f64> = vec![-1e-6, down(t0)];
            for i in 0..tab.len() {
                if !full && i % stride != 0 && i + 1 != tab.len() { continue; }
                let t = tab[i][0];
                if i > 0 { ts.push(down(t)); }
                ts.push(t);
                if i + 1 < tab.len() { ts.push(up(t)); ts.push(0.5 * (t + tab[i + 1][0])); }
            }
            ts.push(up(tn));
            ts.push(5e-6);
            let mut prev: Option<(f64, f64)> = None;     // (t, r) of the previous successful lookup
            for &t in &ts {
                cases += 2;
                let pos = lookup(za, t);
                let neg = lookup(-za, t);
                let in_range = t >= t0 && t <= tn;
                match (&pos, &neg) {
                    (Out::Panic(p), _) | (_, Out::Panic(p)) => return fail(format!("panic: {p}"), za, t),
                    (Out::ZErr, _) | (_, Out::ZErr) => return fail(format!("|z|={za} <= {zmax} rejected as out of range"), za, t),
                    (Out::TErr, Out::TErr) => { if in_range { return fail(format!("slice {e}: t={t:e} inside [{t0:e}, {tn:e}] rejected"), za, t); } }
                    (Out::Ok(r, phi, z), Out::Ok(r2, phi2, z2)) => {
                        if !in_range { return fail(format!("slice {e}: t={t:e} outside [{t0:e}, {tn:e}] accepted"), za, t); }
                        if r.to_bits() != r2.to_bits() || phi.to_bits() != phi2.to_bits() { return fail(format!("z and -z differ: r {r} vs {r2}, phi {phi} vs {phi2}"), za, t); }
                        if *z != za || *z2 != -za { return fail("z not passed through".into(), za, t); }
                        if !(*r >= rmin - 1e-12 && *r <= rmax + 1e-12) { return fail(format!("slice {e}: radius {r} outside tabulated [{rmin}, {rmax}]"), za, t); }
                        let corr = PHI0 - phi;
                        if !(corr >= -1e-12 && corr <= cmax + 1e-12) { return fail(format!("slice {e}: Lorentz correction {corr} outside [0, {cmax}]"), za, t); }
                        if let Some(i) = tab.iter().position(|k| k[0] == t) {
                            if (r - tab[i][1]).abs() > 1e-12 { return fail(format!("slice {e}: knot {i} radius {} looked up as {r}", tab[i][1]), za, t); }
                        }
                        if let Some((pt, pr)) = prev {
                            if *r > pr + 1e-12 { return fail(format!("slice {e}: radius increases from {pr} at t={pt:e} to {r} at t={t:e}"), za, t); }
                        }
                        prev = Some((t, *r));
                        // 8 ns later
                        let t8 = t + 8e-9;
                        if t8 <= tn {
                            cases += 1;
                            if let Out::Ok(r8, _, _) = lookup(za, t8) {
                                let d = (r - r8).abs();
                                if !(d < 0.5e-3) {
                                    // the window [t, t+8 ns] touches knot intervals i and i+1; a listed table step explains it
                                    let i = tab.iter().rposition(|k| k[0] <= t).unwrap_or(0);
                                    let hits: Vec<(usize, usize)> = [i, i + 1].iter().map(|&j| (e, j)).filter(|p| known.contains(p)).collect();
                                    if hits.is_empty() {
                                        return fail(format!("slice {e}: radius changes by {:.4} mm between t={t:e} and t+8ns (no listed table step there)", d * 1e3), za, t);
                                    }
                                    for h in hits { known_hit.insert(h); }
                                    worst_known = worst_known.max(d);
                                }
                            } else {
                                return fail(format!("slice {e}: t+8ns={t8:e} inside the table rejected"), za, t8);
                            }
                        }
                    }
                    _ => return fail("z and -z classified differently".into(), za, t),
                }
            }
        }
    }
    // history independence: the same kind of look-up in descending order of |z|, and with a look-up in the outermost slice in
    // between (the grid above only ever moves outwards; a conversion must not depend on the conversions made before it)
    for pass in 0..2 {
        for s in (0..tabs.len()).rev() {
            let lo = if s == 0 { 0.0 } else { tabs[s - 1].1 };
            let mid = 0.5 * (lo + tabs[s].1);
            let e = match expected_slice(mid) { Some(e) => e, None => return fail(format!("oracle: no slice for |z|={mid}"), mid, 0.0) };
            let tab = &tabs[e].0;
            for k in [0, tab.len() / 2, tab.len() - 1] {
                if pass == 1 { let _ = lookup(if k % 2 == 0 { zmax } else { -zmax }, 1e-6); }
                let t = tab[k][0];
                cases += 1;
                match lookup(if pass == 0 { mid } else { -mid }, t) {
                    Out::Ok(r, _, _) => if (r - tab[k][1]).abs() > 1e-12 {
                        return fail(format!("slice {e}: knot {k} radius {} looked up as {r} after look-ups at larger |z| (the result depends on earlier look-ups)", tab[k][1]), mid, t);
                    },
                    Out::Panic(p) => return fail(format!("panic: {p}"), mid, t),
                    _ => return fail(format!("slice {e}: knot {k} (t={t:e}) rejected after look-ups at larger |z| (the result depends on earlier look-ups)"), mid, t),
                }
            }
        }
    }
    // beyond the last bound
    for z in [up(zmax), 1.3, -up(zmax), -1.3] {
        cases += 1;
        match lookup(z, 1e-6) {
            Out::ZErr => {}
            Out::Panic(p) => return fail(format!("panic: {p}"), z, 1e-6),
            _ => return fail(format!("|z|={} > {zmax} not rejected with AxialPositionOutOfRange", z.abs()), z, 1e-6),
        }
    }
    let mut r = json!({"status": "bounded-ok", "target": target, "bound": bound, "cases": cases, "distinct": cases, "check": name});
    if !known_hit.is_empty() {
        r["findings"] = json!([{"label": "table_steps_ge_half_mm",
            "reason": format!("{} listed knot intervals of the shipped table step by >= 0.5 mm per 8 ns (largest window measured {:.4} mm); {} entries listed",
                              known_hit.len(), worst_known * 1e3, known.len())}]);
    }
    r
}

