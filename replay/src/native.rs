//! Bounded native cross-checks of the leaves the proofs assume (labelled bounded in the evidence).
use super::*;
use crate::ops::{guarded, hex, to_hex};
use det::padwing::{Chunk, PwbV2Packet, PwbPacket, TryPwbPacketFromChunksError as CE};

fn result(name: &str, target: &str, bound: &str, cases: u64, distinct: u64, fail: Option<(String, Value)>) -> Value {
    match fail {
        None => json!({"status": "bounded-ok", "target": target, "bound": bound, "cases": cases, "distinct": distinct, "check": name}),
        Some((reason, w)) => json!({"status": "failed", "target": target, "bound": bound, "cases": cases, "distinct": distinct,
                                    "reason": reason, "witness": w, "check": name}),
    }
}

// ------------------------------------------------------------------------------------------ C07
fn ex_is_entry(s: &[u8]) -> bool { s.len() >= 4 && (s[3] == 0xff || (s[3] & 0x80 == 0x80 && (s[3] & 0x7f) < 59)) }
fn ex_is_block(s: &[u8]) -> bool { s.len() >= 244 && s[0] == 0x3c && s[1] == 0 && s[2] == 0 && s[3] == 0xfe }
/// executable twin of `plen`/`entries` of contracts/lib/fifo_spec.rs
fn ex_parse(s: &[u8]) -> (Vec<[u8; 4]>, usize) {
    let mut out = Vec::new();
    let mut i = 0;
    loop {
        if ex_is_entry(&s[i..]) { out.push([s[i], s[i + 1], s[i + 2], s[i + 3]]); i += 4; }
        else if ex_is_block(&s[i..]) { i += 244; }
        else { return (out, i); }
    }
}
fn entry_matches(e: &det::chronobox::FifoEntry, w: &[u8; 4]) -> bool {
    use det::chronobox::{EdgeType, FifoEntry};
    let v = (w[0] as u32) | ((w[1] as u32) << 8) | ((w[2] as u32) << 16);
    match e {
        FifoEntry::TimestampCounter(t) => w[3] != 0xff && u8::from(t.channel) == w[3] & 0x7f && t.timestamp() == v & 0xFF_FFFE
            && matches!(t.edge, EdgeType::Trailing) == (v & 1 == 1),
        FifoEntry::WrapAroundMarker(m) => w[3] == 0xff && m.wrap_around_counter() == v & 0x7F_FFFF && m.timestamp_top_bit == (v & 0x80_0000 != 0),
    }
}
fn real_parse(s: &[u8]) -> Result<(Vec<det::chronobox::FifoEntry>, usize), String> {
    guarded(|| { let mut input = s; let v = det::chronobox::chronobox_fifo(&mut input); (v, s.len() - input.len()) })
}
pub fn c07_stream(tier: &str) -> Value {
    // one representative per word class, plus the scaler block
    let mut block = vec![0x3c, 0, 0, 0xfe];
    block.extend((0..240).map(|i| (i * 7 + 1) as u8));
    let elems: Vec<Vec<u8>> = vec![
        vec![0x35, 0x12, 0x80, 0x80 | 5],      // timestamp, trailing edge, top bit set
        vec![0x34, 0x12, 0x00, 0x80 | 58],     // timestamp, highest channel
        vec![0x07, 0x00, 0x80, 0xff],          // marker, top bit set
        vec![0x00, 0x00, 0x00, 0xff],          // marker counter 0
        vec![0x01, 0x02, 0x03, 0x80 | 59],     // channel 59: not an entry
        vec![0x01, 0x02, 0x03, 0x7f],          // top bit clear: not an entry
        vec![0x3c, 0x00, 0x00, 0xfe],          // bare tag word (block only when 240 more bytes follow)
        block.clone(),
    ];
    let max_elems = if tier == "thorough" { 4 } else { 3 };
    let mut cases = 0u64;
    let mut distinct = std::collections::HashSet::new();
    let mut idx = vec![0usize; max_elems];
    let total = (elems.len() + 1).pow(max_elems as u32);
    for code in 0..total {
        let mut c = code;
        for k in 0..max_elems { idx[k] = c % (elems.len() + 1); c /= elems.len() + 1; }
        let mut stream = Vec::new();
        for &i in &idx { if i < elems.len() { stream.extend_from_slice(&elems[i]); } }
        if !distinct.insert(stream.clone()) { continue; }
        // every truncation of the stream
        let cuts: Vec<usize> = if stream.len() <= 64 { (0..=stream.len()).collect() }
            else { (0..=stream.len()).filter(|c| c % 4 != 0 || c % 244 < 12 || stream.len() - c < 12 || c % 61 == 0).collect() };
        for &n in &cuts {
            let s = &stream[..n];
            cases += 1;
            let (exp, consumed) = ex_parse(s);
            match real_parse(s) {
                Err(p) => return result("c07_stream", "chronobox_fifo", "streams of <= 3 elements, every truncation", cases, distinct.len() as u64,
                                        Some((format!("panic: {p}"), json!({"op": "fifo", "bytes": to_hex(s)})))),
                Ok((got, used)) => {
                    let ok = used == consumed && got.len() == exp.len() && got.iter().zip(exp.iter()).all(|(e, w)| entry_matches(e, w));
                    if !ok {
                        return result("c07_stream", "chronobox_fifo", "streams of <= 3 elements, every truncation", cases, distinct.len() as u64,
                                      Some((format!("parse mismatch: real consumed {used} / {} entries, spec consumed {consumed} / {} entries", got.len(), exp.len()),
                                            json!({"op": "fifo", "bytes": to_hex(s)}))));
                    }
                    // split invariance at this cut: parse(prefix) then resume on remainder ++ suffix
                    if n < stream.len() {
                        let mut buf = s[used..].to_vec();
                        buf.extend_from_slice(&stream[n..]);
                        let whole = real_parse(&stream).unwrap_or((vec![], 0));
                        let second = real_parse(&buf).unwrap_or((vec![], 0));
                        let ok2 = got.len() + second.0.len() == whole.0.len() && used + second.1 == whole.1;
                        if !ok2 {
                            return result("c07_stream", "chronobox_fifo", "streams of <= 3 elements, every cut", cases, distinct.len() as u64,
                                          Some(("split invariance fails".to_string(), json!({"op": "fifo_split", "bytes": to_hex(&stream), "cut": n}))));
                        }
                    }
                }
            }
        }
    }
    // long runs: the grammar has no bound on the number of back-to-back entries or of blocks (repetition counts hidden in the
    // combinator wiring are invisible to the short streams above)
    let ks: Vec<u32> = if tier == "thorough" { (8..=20).collect() } else { vec![8, 12, 15, 16, 17] };
    for &k in &ks {
        for n in [(1usize << k) - 1, 1usize << k, (1usize << k) + 1] {
            for shape in 0..3 {
                // 0: entries only; 1: a scaler block after every entry (k <= 12 only: 244 bytes each); 2: one block in the middle
                if shape == 1 && k > 12 { continue; }
                let mut stream = Vec::with_capacity(n * 4 + 244);
                for i in 0..n {
                    if i % 5 == 4 { stream.extend_from_slice(&[(i & 0xff) as u8, ((i >> 8) & 0xff) as u8, ((i >> 16) & 0x7f) as u8, 0xff]); }
                    else { stream.extend_from_slice(&[((i << 1) & 0xfe) as u8, ((i >> 7) & 0xff) as u8, ((i >> 15) & 0xff) as u8, 0x80 | (i % 59) as u8]); }
                    if shape == 1 || (shape == 2 && i == n / 2) { stream.extend_from_slice(&block); }
                }
                cases += 1;
                let (exp, consumed) = ex_parse(&stream);
                let label = format!("run of {n} entries (shape {shape}: 0 entries only, 1 a scaler block after each, 2 one block in the middle)");
                let wit = json!({"op": "rerun_native", "check": "c07_stream", "failing_case": label});
                match real_parse(&stream) {
                    Err(p) => return result("c07_stream", "chronobox_fifo", "long runs", cases, distinct.len() as u64, Some((format!("{label}: panic: {p}"), wit))),
                    Ok((got, used)) => {
                        let ok = exp.len() == n && used == consumed && got.len() == exp.len() && got.iter().zip(exp.iter()).all(|(e, w)| entry_matches(e, w));
                        if !ok {
                            return result("c07_stream", "chronobox_fifo", "long runs", cases, distinct.len() as u64,
                                          Some((format!("{label}: real consumed {used} bytes / {} entries, spec consumed {consumed} / {} entries", got.len(), exp.len()), wit)));
                        }
                        // fed in two pieces (cut inside a word): same entries, same remainder
                        let cut = stream.len() / 3 * 1 + 2;
                        let first = real_parse(&stream[..cut]).unwrap_or((vec![], 0));
                        let mut buf = stream[first.1..cut].to_vec();
                        buf.extend_from_slice(&stream[cut..]);
                        let second = real_parse(&buf).unwrap_or((vec![], 0));
                        if first.0.len() + second.0.len() != got.len() || first.1 + second.1 != used {
                            return result("c07_stream", "chronobox_fifo", "long runs", cases, distinct.len() as u64,
                                          Some((format!("{label}: fed in two pieces gives {} + {} entries, at once {}", first.0.len(), second.0.len(), got.len()), wit)));
                        }
                    }
                }
            }
        }
    }
    result("c07_stream", "chronobox_fifo (assumption A-WINNOW)", &format!("all streams of <= {max_elems} elements from 8 word classes, every truncation and cut; runs of 2^k-1, 2^k, 2^k+1 entries (k in {ks:?}) without / with interleaved scaler blocks, whole and in two pieces"), cases, distinct.len() as u64, None)
}

pub fn confirm_fifo(w: &Value) -> Value {
    let b = hex(w["bytes"].as_str().unwrap_or(""));
    let (exp, consumed) = ex_parse(&b);
    match real_parse(&b) {
        Err(p) => json!({"contradicts": true, "real": format!("panic: {p}"), "spec": format!("{} entries, {consumed} bytes", exp.len())}),
        Ok((got, used)) => {
            let ok = used == consumed && got.len() == exp.len() && got.iter().zip(exp.iter()).all(|(e, w)| entry_matches(e, w));
            json!({"contradicts": !ok, "real": format!("{} entries, {used} bytes consumed", got.len()), "spec": format!("{} entries, {consumed} bytes", exp.len())})
        }
    }
}

// ------------------------------------------------------------------------------------------ C04
pub fn make_chunk(device: u32, chip: u8, flags: u8, id: u16, payload: &[u8]) -> Vec<u8> {
    let mut b = Vec::new();
    b.extend_from_slice(&device.to_le_bytes());
    b.extend_from_slice(&7u32.to_le_bytes());
    b.extend_from_slice(&3u16.to_le_bytes());
    b.push(chip);
    b.push(flags);
    b.extend_from_slice(&id.to_le_bytes());
    b.extend_from_slice(&(payload.len() as u16).to_le_bytes());
    let h = !crc32c::crc32c(&b[0..16]);
    b.extend_from_slice(&h.to_le_bytes());
    b.extend_from_slice(payload);
    while (b.len() - 20) % 4 != 0 { b.push(0); }
    let p = !crc32c::crc32c(&b[20..]);
    b.extend_from_slice(&p.to_le_bytes());
    b
}
#[derive(Clone, Copy, PartialEq, Eq, Debug, Hash, PartialOrd, Ord)]
struct Spec { dev: u8, chip: u8, flags: u8, id: u16, len: u8 }
#[derive(PartialEq, Eq, Debug, Clone)]
enum Class { Device, Chip, Missing(usize), NoEnd, Misplaced(usize), Len, Bad, Ok(Vec<u8>) }
/// executable reassembly spec on the multiset (sorted copy): the ladder of contracts/lib/reassembly_spec.rs
fn spec_class(m: &[Spec]) -> Class {
    if m.is_empty() { return Class::Missing(0); }
    if m.iter().any(|c| c.dev != m[0].dev) { return Class::Device; }
    if m.iter().any(|c| c.chip != m[0].chip) { return Class::Chip; }
    let mut s = m.to_vec();
    s.sort_by_key(|c| c.id);
    if let Some(p) = s.iter().enumerate().position(|(i, c)| c.id as usize != i) { return Class::Missing(p); }
    if s.last().unwrap().flags & 1 == 0 { return Class::NoEnd; }
    if let Some(p) = s[..s.len() - 1].iter().position(|c| c.flags & 1 == 1) { return Class::Misplaced(p); }
    if s[..s.len() - 1].iter().any(|c| c.len != s[0].len) { return Class::Len; }
    Class::Bad // payload alphabet never forms a valid PWB packet; decode verdict is compared separately
}
fn real_class(r: &Result<PwbV2Packet, CE>) -> Class {
    match r {
        Ok(_) => Class::Ok(vec![]),
        Err(CE::DeviceIdMismatch { .. }) => Class::Device,
        Err(CE::ChannelIdMismatch { .. }) => Class::Chip,
        Err(CE::MissingChunk { position }) => Class::Missing(*position),
        Err(CE::MissingEndOfMessageChunk) => Class::NoEnd,
        Err(CE::MisplacedEndOfMessageChunk { position }) => Class::Misplaced(*position),
        Err(CE::PayloadLengthMismatch { .. }) => Class::Len,
        Err(CE::BadPayload(_)) => Class::Bad,
    }
}
fn permutations(n: usize) -> Vec<Vec<usize>> {
    if n == 0 { return vec![vec![]]; }
    let mut out = Vec::new();
    for p in permutations(n - 1) { for i in 0..n { let mut q = p.clone(); q.insert(i, n - 1); out.push(q); } }
    out
}
pub fn c04_enum(tier: &str) -> Value {
    let devs = [SPEC_PADWING[0].2, SPEC_PADWING[12].2];
    let max_n = if tier == "thorough" { 5 } else { 4 };
    let mut alphabet = Vec::new();
    for dev in 0..2u8 { for chip in 0..2u8 { for flags in 0..2u8 { for id in 0..max_n as u16 { for len in [1u8, 3] {
        // thin the alphabet: second board / chip only with the smallest other fields
        if (dev == 1 || chip == 1) && (len != 1 || id > 1) { continue; }
        alphabet.push(Spec { dev, chip, flags, id, len });
    } } } } }
    let target = "PwbV2Packet::try_from(Vec<Chunk>) (sort/position/fold leaves of unit pwbchunks)";
    let bound = format!("every multiset of <= {max_n} chunks over an alphabet of {} chunk shapes, every arrival order; one valid packet cut into equal pieces of every size 1..=64 bytes (in order, reversed, rotated)", alphabet.len());
    let mut cases = 0u64;
    let mut multisets = 0u64;
    let a = alphabet.len();
    let mut idx = vec![0usize; max_n];
    for n in 0..=max_n {
        // non-decreasing index tuples = multisets
        fn rec(n: usize, k: usize, lo: usize, a: usize, idx: &mut Vec<usize>, f: &mut dyn FnMut(&[usize]) -> Option<(String, Value)>) -> Option<(String, Value)> {
            if k == n { return f(&idx[..n]); }
            for i in lo..a { idx[k] = i; if let Some(x) = rec(n, k + 1, i, a, idx, f) { return Some(x); } }
            None
        }
        let perms = permutations(n);
        let mut f = |ids: &[usize]| -> Option<(String, Value)> {
            multisets += 1;
            let m: Vec<Spec> = ids.iter().map(|&i| alphabet[i]).collect();
            let expect = spec_class(&m);
            let mut first: Option<Class> = None;
            for p in &perms {
                cases += 1;
                let bytes: Vec<Vec<u8>> = p.iter().map(|&i| { let c = m[i]; make_chunk(devs[c.dev as usize], c.chip, c.flags, c.id, &vec![0xA5u8; c.len as usize]) }).collect();
                let chunks: Vec<Chunk> = bytes.iter().map(|b| Chunk::try_from(&b[..]).expect("valid chunk")).collect();
                let r = guarded(|| PwbV2Packet::try_from(chunks));
                let w = json!({"op": "chunks", "chunks": bytes.iter().map(|b| to_hex(b)).collect::<Vec<_>>()});
                let got = match r { Err(p) => return Some((format!("panic: {p}"), w)), Ok(r) => real_class(&r) };
                if got != expect { return Some((format!("class {:?}, specification says {:?}", got, expect), w)); }
                if let Some(f0) = &first { if *f0 != got { return Some(("result depends on arrival order".to_string(), w)); } } else { first = Some(got); }
            }
            None
        };
        if let Some((reason, w)) = rec(n, 0, 0, a, &mut idx, &mut f) {
            return result("c04_enum", target, &bound, cases, multisets, Some((reason, w)));
        }
    }
    // success path: a real two-chunk packet decodes to the same packet as the direct decode of the concatenation, in both orders
    let pkt = valid_pwb_payload();
    let (a1, a2) = pkt.split_at(pkt.len() / 2 / 4 * 4);
    let c0 = make_chunk(SPEC_PADWING[11].2, 0, 0, 0, a1);
    let c1 = make_chunk(SPEC_PADWING[11].2, 0, 1, 1, a2);
    for order in [[&c0, &c1], [&c1, &c0]] {
        cases += 1;
        let chunks: Vec<Chunk> = order.iter().map(|b| Chunk::try_from(&b[..]).unwrap()).collect();
        let r = PwbPacket::try_from(chunks);
        let direct = PwbV2Packet::try_from(&pkt[..]);
        let same = match (&r, &direct) { (Ok(PwbPacket::V2(p)), Ok(q)) => format!("{p:?}") == format!("{q:?}"), _ => false };
        if !same {
            return result("c04_enum", target, &bound, cases, multisets,
                          Some(("reassembled packet differs from the direct decode of the concatenated payloads".to_string(),
                                json!({"op": "chunks", "chunks": order.iter().map(|b| to_hex(b)).collect::<Vec<_>>()}))));
        }
    }
    // the same packet cut into equal pieces of every size (so also sizes that are not a multiple of 4, whose chunks carry padding
    // bytes on the wire), arriving in order, reversed and rotated: always the packet decoded directly from the bytes
    let direct = format!("{:?}", PwbV2Packet::try_from(&pkt[..]));
    for size in 1..=pkt.len() {
        let pieces: Vec<&[u8]> = pkt.chunks(size).collect();
        let n = pieces.len();
        let made: Vec<Vec<u8>> = pieces.iter().enumerate()
            .map(|(i, pc)| make_chunk(SPEC_PADWING[11].2, 0, (i + 1 == n) as u8, i as u16, pc)).collect();
        let mut orders: Vec<Vec<usize>> = vec![(0..n).collect(), (0..n).rev().collect()];
        if n > 2 { orders.push((0..n).map(|i| (i + 1) % n).collect()); }
        for order in orders {
            cases += 1;
            let w = json!({"op": "chunks", "chunks": order.iter().map(|&i| to_hex(&made[i])).collect::<Vec<_>>()});
            let chunks: Vec<Chunk> = match order.iter().map(|&i| Chunk::try_from(&made[i][..])).collect::<Result<Vec<_>, _>>() {
                Ok(c) => c,
                Err(e) => return result("c04_enum", target, &bound, cases, multisets, Some((format!("a valid chunk of {size} payload bytes is rejected: {e}"), w))),
            };
            let concat: Vec<u8> = { let mut v: Vec<(u16, Vec<u8>)> = chunks.iter().map(|c| (c.chunk_id(), c.payload().to_vec())).collect(); v.sort(); v.into_iter().flat_map(|x| x.1).collect() };
            if concat != pkt {
                return result("c04_enum", target, &bound, cases, multisets, Some((format!("payload() of the chunks of size {size} does not give back the bytes that were cut"), w)));
            }
            let r = guarded(|| PwbV2Packet::try_from(chunks));
            let got = match r { Err(p) => return result("c04_enum", target, &bound, cases, multisets, Some((format!("panic: {p}"), w))), Ok(r) => format!("{r:?}") };
            if got != direct {
                return result("c04_enum", target, &bound, cases, multisets,
                              Some((format!("packet cut into pieces of {size} bytes: reassembly gives {}, the direct decode of the concatenated payloads gives {}", &got[..got.len().min(80)], &direct[..direct.len().min(80)]), w)));
            }
        }
    }
    result("c04_enum", target, &bound, cases, multisets + 1, None)
}
/// a small valid PWB v2 payload: one channel sent (readout index 4 = pad 1), 2 samples
pub fn valid_pwb_payload() -> Vec<u8> {
    let mut b = vec![0u8; 52];
    b[0] = 2; b[1] = b'A'; b[2] = 0; b[3] = 0;
    b[4..10].copy_from_slice(&SPEC_PADWING[11].1);
    b[22] = 2;              // requested samples
    b[24] = 1 << 3;         // bit 3 -> readout index 4
    b.extend_from_slice(&4u16.to_le_bytes());
    b.extend_from_slice(&2u16.to_le_bytes());
    b.extend_from_slice(&(-5i16).to_le_bytes());
    b.extend_from_slice(&(7i16).to_le_bytes());
    b.extend_from_slice(&[204, 204, 204, 204]);
    b
}
pub fn confirm_chunks(w: &Value) -> Value {
    let bytes: Vec<Vec<u8>> = w["chunks"].as_array().map(|a| a.iter().map(|x| hex(x.as_str().unwrap_or(""))).collect()).unwrap_or_default();
    let chunks: Vec<Chunk> = match bytes.iter().map(|b| Chunk::try_from(&b[..])).collect::<Result<Vec<_>, _>>() {
        Ok(c) => c, Err(e) => return json!({"error": format!("witness chunk rejected: {e}")}),
    };
    // specification class from the decoded fields
    let m: Vec<Spec> = chunks.iter().map(|c| Spec { dev: (c.board_id().device_id() % 251) as u8, chip: c.after_id() as u8, flags: c.is_end_of_message() as u8, id: c.chunk_id(), len: c.payload().len() as u8 }).collect();
    let expect = spec_class(&m);
    let r = guarded(|| PwbV2Packet::try_from(chunks));
    match r {
        Err(p) => json!({"contradicts": true, "real": format!("panic: {p}"), "spec": format!("{expect:?}")}),
        Ok(r) => {
            let got = real_class(&r);
            // where the ladder reaches the decode: the result is the direct decode of the payloads as they are on the wire
            // (bytes 20 .. 20 + chunk_length of each chunk), concatenated in chunk-id order
            let mut wire: Vec<(u16, Vec<u8>)> = bytes.iter().filter(|b| b.len() >= 24).map(|b| {
                let len = u16::from_le_bytes([b[14], b[15]]) as usize;
                (u16::from_le_bytes([b[12], b[13]]), b[20..(20 + len).min(b.len())].to_vec())
            }).collect();
            wire.sort();
            let concat: Vec<u8> = wire.into_iter().flat_map(|x| x.1).collect();
            let direct = PwbV2Packet::try_from(&concat[..]);
            let decode_differs = matches!(expect, Class::Ok(_) | Class::Bad)
                && (r.as_ref().ok().map(|p| format!("{p:?}")) != direct.as_ref().ok().map(|p| format!("{p:?}")));
            json!({"contradicts": (got != expect && !(matches!(got, Class::Ok(_)) && expect == Class::Bad)) || decode_differs,
                   "real": format!("{got:?}{}", if decode_differs { " -- differs from the direct decode of the concatenated payloads" } else { "" }),
                   "spec": format!("{expect:?}; on success the packet decoded from the id-ordered concatenation of the payloads")})
        }
    }
}

// ------------------------------------------------------------------------------------------ C08 tables
pub fn c08_tables(_tier: &str) -> Value {
    use det::alpha16::aw_map::TpcWirePosition;
    use det::alpha16::{Adc32ChannelId, BoardId as A16Board};
    use det::padwing::map::{TpcPadPosition, TpcPwbPosition};
    use det::padwing::{AfterId, BoardId as PwbBoard, PadChannelId};
    let target = "TpcWirePosition::try_new / TpcPadPosition::try_new (lazy_static tables, assumption A-MAPS)";
    let bound = "all boards x chips x channels at run numbers 2941, 4418, 5000, 10418, 20000 and the simulation run number; one pad and one wire per board again with 11 run numbers interleaved (history independence)";
    let mut cases = 0u64;
    let fail = |reason: String, cases: u64| result("c08_tables", target, bound, cases, 0, Some((reason, json!(null))));
    let wires = |run: u32, cases: &mut u64| -> Result<Vec<usize>, String> {
        let mut seen = vec![usize::MAX; 256];
        let mut out = Vec::new();
        for (bi, (name, _)) in SPEC_ALPHA16.iter().enumerate() {
            let b = A16Board::try_from(*name).map_err(|e| e.to_string())?;
            for ch in 0..32u8 {
                *cases += 1;
                let w = TpcWirePosition::try_new(run, b, Adc32ChannelId::try_from(ch).unwrap()).map_err(|e| format!("run {run}: {e}"))?;
                let i = usize::from(w);
                if i >= 256 { return Err(format!("wire index {i} out of range")); }
                if seen[i] != usize::MAX { return Err(format!("run {run}: wire {i} assigned twice")); }
                seen[i] = bi * 32 + ch as usize;
                out.push(i);
            }
        }
        Ok(out)
    };
    let pads = |run: u32, cases: &mut u64| -> Result<Vec<(usize, usize)>, String> {
        let mut seen = std::collections::HashSet::new();
        let mut out = Vec::new();
        let mut installed = 0;
        for (name, _, _) in SPEC_PADWING.iter() {
            let b = PwbBoard::try_from(*name).map_err(|e| e.to_string())?;
            if TpcPwbPosition::try_new(run, b).is_err() { continue; }
            installed += 1;
            for chip in 0..4u8 { for ch in 1..=72u16 {
                *cases += 1;
                let p = TpcPadPosition::try_new(run, b, AfterId::try_from(chip).unwrap(), PadChannelId::try_from(ch).unwrap()).map_err(|e| format!("run {run}: {e}"))?;
                let k = (usize::from(p.column), usize::from(p.row));
                if k.0 >= 32 || k.1 >= 576 { return Err(format!("pad {k:?} out of range")); }
                if !seen.insert(k) { return Err(format!("run {run}: pad {k:?} assigned twice")); }
                out.push(k);
            } }
        }
        if installed != 64 { return Err(format!("run {run}: {installed} installed boards, expected 64")); }
        if seen.len() != 18432 { return Err(format!("run {run}: {} pads covered, expected 18432", seen.len())); }
        Ok(out)
    };
    // board tables: name <-> MAC <-> device id agree with the documented rows, for every row
    for (name, mac, dev) in SPEC_PADWING.iter() {
        cases += 1;
        let by_name = PwbBoard::try_from(*name).ok();
        let by_mac = PwbBoard::try_from(*mac).ok();
        let by_dev = PwbBoard::try_from(*dev).ok();
        let ok = |b: &Option<PwbBoard>| b.map(|b| b.name() == *name && b.mac_address() == *mac && b.device_id() == *dev).unwrap_or(false);
        if !(ok(&by_name) && ok(&by_mac) && ok(&by_dev)) { return fail(format!("PadWing board {name}: name / MAC / device id look-ups disagree with the documented row"), cases); }
        if u32::from_le_bytes([mac[0], mac[1], mac[2], mac[3]]) != *dev { return fail(format!("PadWing board {name}: device id is not the little-endian first four MAC bytes"), cases); }
    }
    for (name, mac) in SPEC_ALPHA16.iter() {
        cases += 1;
        let ok = |b: Option<A16Board>| b.map(|b| b.name() == *name && b.mac_address() == *mac).unwrap_or(false);
        if !(ok(A16Board::try_from(*name).ok()) && ok(A16Board::try_from(*mac).ok())) { return fail(format!("Alpha16 board {name}: name / MAC look-ups disagree with the documented row"), cases); }
    }
    let mut sim_w = None; let mut r5000_w = None; let mut sim_p = None; let mut r5000_p = None;
    for run in [2941u32, 4418, 5000, 10418, 20000, u32::MAX] {
        match wires(run, &mut cases) { Ok(v) => { if run == 5000 { r5000_w = Some(v.clone()); } if run == u32::MAX { sim_w = Some(v); } } Err(e) => return fail(e, cases) }
        if run >= 4418 { match pads(run, &mut cases) { Ok(v) => { if run == 5000 { r5000_p = Some(v.clone()); } if run == u32::MAX { sim_p = Some(v); } } Err(e) => return fail(e, cases) } }
    }
    if sim_w != r5000_w || sim_p != r5000_p { return fail("simulation run number does not map like run 5000".into(), cases); }
    // before the first map: an error, not a guess
    let b0 = A16Board::try_from("09").unwrap();
    for run in [0u32, 2723, 2940] {
        cases += 1;
        if TpcWirePosition::try_new(run, b0, Adc32ChannelId::try_from(0).unwrap()).is_ok() { return fail(format!("run {run}: wire map guessed"), cases); }
    }
    let p0 = PwbBoard::try_from("12").unwrap();
    for run in [0u32, 4417] {
        cases += 1;
        if TpcPadPosition::try_new(run, p0, AfterId::A, PadChannelId::try_from(1).unwrap()).is_ok() { return fail(format!("run {run}: pad map guessed"), cases); }
    }
    // a look-up depends on its arguments only, not on the look-ups made before it: one pad / one wire per board, first run by run
    // (a table), then board by board with the run numbers -- including ones without a map -- interleaved
    {
        let runs = [4418u32, 10418, 100, 5000, u32::MAX, 4417, 20000, 4418, 2941, 0, 10418];
        let pad_at = |run: u32, b: PwbBoard| TpcPadPosition::try_new(run, b, AfterId::B, PadChannelId::try_from(7).unwrap()).ok().map(|p| (usize::from(p.column), usize::from(p.row)));
        let wire_at = |run: u32, b: A16Board| TpcWirePosition::try_new(run, b, Adc32ChannelId::try_from(5).unwrap()).ok().map(usize::from);
        let pboards: Vec<PwbBoard> = SPEC_PADWING.iter().filter_map(|(n, _, _)| PwbBoard::try_from(*n).ok()).collect();
        let wboards: Vec<A16Board> = SPEC_ALPHA16.iter().filter_map(|(n, _)| A16Board::try_from(*n).ok()).collect();
        let mut ptab = std::collections::HashMap::new();
        let mut wtab = std::collections::HashMap::new();
        for &run in &runs {
            for (i, &b) in pboards.iter().enumerate() { cases += 1; ptab.insert((run, i), pad_at(run, b)); }
            for (i, &b) in wboards.iter().enumerate() { cases += 1; wtab.insert((run, i), wire_at(run, b)); }
        }
        for (i, &b) in pboards.iter().enumerate() {
            for &run in &runs {
                cases += 1;
                let got = pad_at(run, b);
                if got != ptab[&(run, i)] {
                    return fail(format!("PadWing board {}: pad of (chip B, channel 7) at run {run} is {:?} when asked run by run and {got:?} right after look-ups of the same board at other run numbers", b.name(), ptab[&(run, i)]), cases);
                }
            }
        }
        for (i, &b) in wboards.iter().enumerate() {
            for &run in &runs {
                cases += 1;
                let got = wire_at(run, b);
                if got != wtab[&(run, i)] {
                    return fail(format!("Alpha16 board {}: wire of channel 5 at run {run} is {:?} when asked run by run and {got:?} right after look-ups of the same board at other run numbers", b.name(), wtab[&(run, i)]), cases);
                }
            }
        }
    }
    // wire <-> pad column geometry: a wire's azimuth lies inside the azimuth span of pad column ((w - 8) mod 256) / 8
    for w in 0..256usize {
        cases += 1;
        let phi = TpcWirePosition::try_from(w).unwrap().phi();
        let col = (phi / det::padwing::map::PAD_PITCH_PHI).floor() as usize;
        if col != (w.wrapping_sub(8) & 0xff) / 8 { return fail(format!("wire {w}: azimuth {phi} lies in pad column {col}"), cases); }
    }
    result("c08_tables", target, bound, cases, cases, None)
}
