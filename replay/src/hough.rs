//! C15, bounded: the contracts that the Verus unit `cluster` ASSUMES for the Hough accumulator, checked on its verbatim text.
//! The struct, its impl, `u_v` and `RHO_MAX` are cut out of physics/src/reconstruction/track_finding.rs on every build
//! (contracts/frag_hough.vspec); the check below is compiled into the same module, so it sees the private representation.
use super::*;

#[allow(dead_code, unused_variables, unused_imports)]
mod frag {
    use alpha_g_detector::alpha16::aw_map::INNER_CATHODE_RADIUS;
    use alpha_g_physics::SpacePoint;
    use indexmap::IndexMap;
    use uom::si::f64::{Angle, Length, ReciprocalLength};
    use uom::si::ratio::ratio;
    use uom::typenum::P2;
    include!(concat!(env!("VERIF_FRAG_DIR"), "/frag_hough.rs"));

    // ---- everything below is the check, not /repo text
    use serde_json::{json, Value};
    use uom::si::angle::radian;
    use uom::si::length::meter;
    type Key = (u64, u64, u64);
    fn key(p: &SpacePoint) -> Key { (p.r.get::<meter>().to_bits(), p.phi.get::<radian>().to_bits(), p.z.get::<meter>().to_bits()) }
    fn sp(r: f64, phi: f64, z: f64) -> SpacePoint { SpacePoint { r: Length::new::<meter>(r), phi: Angle::new::<radian>(phi), z: Length::new::<meter>(z) } }
    struct Rng(u64);
    impl Rng {
        fn next(&mut self) -> u64 { self.0 ^= self.0 << 13; self.0 ^= self.0 >> 7; self.0 ^= self.0 << 17; self.0 }
        fn unit(&mut self) -> f64 { (self.next() >> 11) as f64 / (1u64 << 53) as f64 }
        fn below(&mut self, n: u64) -> u64 { self.next() % n }
    }

    /// representation invariant behind acc_view: every bin lists exactly the model points that vote for it
    fn rep_ok(acc: &HoughSpaceAccumulator, model: &[SpacePoint]) -> Result<(), String> {
        let mut want: std::collections::BTreeMap<(u32, u32), Vec<Key>> = Default::default();
        for p in model { for b in acc.get_bins(*p) { want.entry(b).or_default().push(key(p)); } }
        for (b, v) in acc.accumulator.iter() {
            let mut got: Vec<Key> = v.iter().map(key).collect();
            got.sort();
            let mut w = want.remove(b).unwrap_or_default();
            w.sort();
            if got != w { return Err(format!("bin {b:?} holds {} votes, the points added and not removed give {}", got.len(), w.len())); }
        }
        if let Some((b, w)) = want.into_iter().find(|(_, w)| !w.is_empty()) { return Err(format!("bin {b:?} is missing with {} votes due", w.len())); }
        Ok(())
    }
    fn sub_multiset(a: &[SpacePoint], b: &[SpacePoint]) -> bool {
        let mut m: std::collections::BTreeMap<Key, i64> = Default::default();
        for p in b { *m.entry(key(p)).or_default() += 1; }
        for p in a { let e = m.entry(key(p)).or_default(); *e -= 1; if *e < 0 { return false; } }
        true
    }

    pub fn c15_acc(tier: &str, seed: u64) -> Value {
        let name = "c15_acc";
        let target = "HoughSpaceAccumulator::{get_bins, add, remove_unchecked, most_popular} (verbatim text) against the multiset contracts assumed by unit cluster";
        if !FRAG_HOUGH_OK { return json!({"error": "fragment frag_hough not extracted"}); }
        let big = tier == "thorough";
        let runs = if big { 60 } else { 12 };
        let bound = format!("{runs} random sequences (seed {seed}) of up to {} add / remove_unchecked operations on points with r in [0.109, 0.19] m incl. repeated points, bin counts (250, 230), (16, 12) and (1, 1); representation compared after every operation", if big { 400 } else { 120 });
        let mut rng = Rng(0xA0761D6478BD642F ^ (seed.wrapping_mul(0xE7037ED1A0B428DB) | 1));
        let mut cases = 0u64;
        let fail = |e: String, cases: u64| json!({"status": "failed", "target": target, "bound": bound, "check": name, "cases": cases, "distinct": cases, "reason": e,
                                                  "witness": {"op": "rerun_native", "check": name, "failing_case": e}});
        for run in 0..runs {
            let (rho_bins, theta_bins) = match run % 3 { 0 => (250, 230), 1 => (16, 12), _ => (1, 1) };
            let mut acc = HoughSpaceAccumulator { rho_bins, theta_bins, accumulator: IndexMap::new() };
            let mut model: Vec<SpacePoint> = Vec::new();
            let nops = if big { 400 } else { 120 };
            for op in 0..nops {
                cases += 1;
                let add = model.is_empty() || rng.below(3) != 0;
                if add {
                    let p = if !model.is_empty() && rng.below(5) == 0 { model[rng.below(model.len() as u64) as usize] }
                            else { sp(0.109 + 0.081 * rng.unit(), -3.14 + 6.28 * rng.unit(), -1.1 + 2.2 * rng.unit()) };
                    // get_bins: a function of the point, no bin twice (otherwise one add would cast two votes in a bin)
                    let b1 = acc.get_bins(p);
                    let b2 = acc.get_bins(p);
                    if b1 != b2 { return fail(format!("run {run} op {op}: get_bins is not deterministic"), cases); }
                    let mut s = b1.clone(); s.sort(); s.dedup();
                    if s.len() != b1.len() { return fail(format!("run {run} op {op}: get_bins returns a bin twice"), cases); }
                    if b1.iter().any(|b| b.0 >= theta_bins) { return fail(format!("run {run} op {op}: theta bin out of range"), cases); }
                    acc.add(p);
                    model.push(p);
                } else {
                    let i = rng.below(model.len() as u64) as usize;
                    let p = model.swap_remove(i);
                    // contract: present => no panic
                    let r = std::panic::catch_unwind(std::panic::AssertUnwindSafe(|| acc.remove_unchecked(p)));
                    if r.is_err() { return fail(format!("run {run} op {op}: remove_unchecked panicked on a point that is in the accumulator"), cases); }
                }
                if let Err(e) = rep_ok(&acc, &model) { return fail(format!("run {run} op {op} ({}): {e}", if add { "add" } else { "remove_unchecked" }), cases); }
                let mp = acc.most_popular();
                if !sub_multiset(&mp, &model) { return fail(format!("run {run} op {op}: most_popular returns {} points that are not a sub-multiset of the points in the accumulator", mp.len()), cases); }
                if !model.is_empty() && mp.is_empty() && !acc.accumulator.values().all(|v| v.is_empty()) { return fail(format!("run {run} op {op}: most_popular is empty although bins hold votes"), cases); }
            }
        }
        json!({"status": "bounded-ok", "target": target, "bound": bound, "cases": cases, "distinct": cases, "check": name})
    }
}
pub use frag::c15_acc;
