//! Decision-table differential checks: the real decoders against the executable specification predicates over a structured,
//! bounded corpus (valid packets of several shapes, each with every single-field boundary mutation and every single-bit flip of
//! the header).  They are bounded stand-ins (labelled so): they back up the proofs when an edit of /repo moves a proof anchor, and
//! they supply concrete witnesses.
use super::*;
use crate::ops::{guarded, to_hex};
use crate::native::{make_chunk, valid_pwb_payload};

struct Tally { cases: u64, distinct: std::collections::HashSet<u64>, fail: Option<(String, Value)> }
impl Tally {
    fn new() -> Self { Tally { cases: 0, distinct: Default::default(), fail: None } }
    fn seen(&mut self, b: &[u8]) -> bool {
        use std::hash::{Hash, Hasher};
        let mut h = std::collections::hash_map::DefaultHasher::new();
        b.hash(&mut h);
        !self.distinct.insert(h.finish())
    }
}
fn finish(name: &str, target: &str, bound: &str, t: Tally) -> Value {
    match t.fail {
        None => json!({"status": "bounded-ok", "target": target, "bound": bound, "cases": t.cases, "distinct": t.distinct.len(), "check": name}),
        Some((reason, w)) => json!({"status": "failed", "target": target, "bound": bound, "cases": t.cases, "distinct": t.distinct.len(),
                                    "reason": reason, "witness": w, "check": name}),
    }
}
/// every boundary value of a byte / 16-bit field worth trying
const B8: [u8; 12] = [0, 1, 2, 3, 4, 7, 8, 15, 16, 127, 128, 255];
fn mutations(base: &[u8], word_offsets: &[usize], mut f: impl FnMut(&[u8]) -> bool) {
    if !f(base) { return; }
    // single-bit flips everywhere in the first 64 bytes and the last 8
    let n = base.len();
    for i in (0..n.min(64)).chain(n.saturating_sub(8)..n) {
        for bit in 0..8 { let mut b = base.to_vec(); b[i] ^= 1 << bit; if !f(&b) { return; } }
    }
    // boundary values in every byte of the first 64 and last 8 bytes
    for i in (0..n.min(64)).chain(n.saturating_sub(8)..n) {
        for v in B8 { let mut b = base.to_vec(); b[i] = v; if !f(&b) { return; } }
    }
    // 16-bit fields at boundary values (both byte orders are covered by the caller's choice of offsets)
    for &o in word_offsets {
        for v in [0u16, 1, 2, 33, 34, 35, 63, 64, 65, 66, 255, 256, 511, 512, 2047, 2048, 2081, 2082, 4095, 4096, 0x7fff, 0x8000, 0xfffe, 0xffff] {
            for be in [true, false] {
                let mut b = base.to_vec();
                let w = if be { v.to_be_bytes() } else { v.to_le_bytes() };
                if o + 1 < n { b[o] = w[0]; b[o + 1] = w[1]; if !f(&b) { return; } }
            }
        }
    }
    // whole words complemented / zeroed / byte-swapped (32-bit bursts: CRC words, counters), aligned, in the first 64 and the last 8 bytes
    for o in (0..n.min(64)).step_by(4).chain((n.saturating_sub(8)..n).step_by(4)) {
        if o + 4 > n { continue; }
        let mut b = base.to_vec(); for k in 0..4 { b[o + k] = !b[o + k]; } if !f(&b) { return; }
        let mut b = base.to_vec(); b[o..o + 4].reverse(); if !f(&b) { return; }
        let mut b = base.to_vec(); for k in 0..4 { b[o + k] = 0; } if !f(&b) { return; }
    }
    // truncations and extensions
    for cut in 1..=5.min(n) { if !f(&base[..n - cut]) { return; } }
    for add in 1..=4 { let mut b = base.to_vec(); b.extend(std::iter::repeat(0).take(add)); if !f(&b) { return; } }
}

// ------------------------------------------------------------------------------------------ ADC (C02)
fn adc_packet(samples: &[i16], req: u16, keep_last: u16, keep_bit: bool, supp: bool, chan: u8) -> Vec<u8> {
    let mut b = vec![0u8; 32];
    b[0] = 1; b[1] = 3; b[2] = 0x12; b[3] = 0x34; b[4] = 5; b[5] = chan;
    b[6..8].copy_from_slice(&req.to_be_bytes());
    b[8..12].copy_from_slice(&0xA1B2C3D4u32.to_be_bytes());
    b[14..20].copy_from_slice(&SPEC_ALPHA16[3].1);
    b[20..24].copy_from_slice(&0x01020304u32.to_be_bytes());
    b[24..28].copy_from_slice(&(-77i32).to_be_bytes());
    b[28..32].copy_from_slice(&0x5566_7788u32.to_be_bytes());
    for s in samples { b.extend_from_slice(&s.to_be_bytes()); }
    let footer: u16 = (keep_last & 0xFFF) | ((keep_bit as u16) << 12) | ((supp as u16) << 13);
    b.extend_from_slice(&footer.to_be_bytes());
    let sum: i64 = samples.iter().take(64).map(|&x| x as i64).sum();
    b.extend_from_slice(&(sum.div_euclid(64) as i16).to_be_bytes());
    b
}
pub fn c02_table(_tier: &str) -> Value {
    let mut t = Tally::new();
    let mut bases: Vec<Vec<u8>> = Vec::new();
    // suppressed 16-byte form
    let mut s16 = vec![1u8, 3, 0, 9, 2, 130, 2, 187, 0, 0, 0, 7, 0x20, 0x00, 0, 0];
    bases.push(s16.clone());
    s16[12] = 0x30; bases.push(s16.clone());
    // sample patterns whose 64-sample sums are negative / divisible / extreme
    let pats: Vec<Vec<i16>> = vec![
        vec![0; 64], vec![-1; 64], vec![1; 65], vec![i16::MIN; 64], vec![i16::MAX; 66], vec![-3; 70],
        (0..64).map(|i| if i % 2 == 0 { -1 } else { 0 }).collect(), (0..100).map(|i| (i * 37 - 900) as i16).collect(),
        (0..64).map(|i| if i == 0 { -64 } else { 0 }).collect(), (0..64).map(|i| if i == 0 { -65 } else { 0 }).collect(),
        vec![5; 63], vec![5; 200],
    ];
    for p in &pats {
        let n = p.len() as u16;
        for (req, kl, kb, supp) in [(n + 2, 0u16, false, false), (n + 2, 34, true, false), (n + 2, 40, true, true), (n + 40, 34, true, true),
                                    (n + 2, n / 2 + 2, true, true), (n + 2, 2081, true, true), (n + 2, 2082, true, false), (n + 1, 0, false, false),
                                    (1, 34, true, true), (0, 0, false, false), (n + 2, 33, true, true), (n + 2, 0x800, false, false)] {
            bases.push(adc_packet(p, req, kl, kb, supp, 130));
        }
        bases.push(adc_packet(p, n + 2, 0, false, false, 15));
        bases.push(adc_packet(p, n + 2, 0, false, false, 16));
        bases.push(adc_packet(p, n + 2, 0, false, false, 160));
    }
    for base in &bases {
        let len = base.len();
        mutations(base, &[2, 6, 12, len.saturating_sub(4), len.saturating_sub(2), 32, 34], |b| {
            if t.seen(b) { return true; }
            t.cases += 1;
            let r = guarded(|| det::alpha16::AdcV3Packet::try_from(b));
            let spec = adc_ok(b);
            let bad = match &r { Err(p) => Some(format!("panic: {p}")),
                Ok(r) => if r.is_ok() != spec { Some(format!("accepted={} but adc_ok={spec}", r.is_ok())) }
                         else if let Ok(p) = r { if adc_fields_ok(p, b) { None } else { Some("accessor values differ from the bytes".into()) } } else { None } };
            if let Some(m) = bad { t.fail = Some((m, json!({"op": "adc", "bytes": to_hex(b)}))); return false; }
            true
        });
        if t.fail.is_some() { break; }
    }
    finish("c02_table", "AdcV3Packet::try_from vs adc_ok", "12 sample patterns x 15 footer/size settings, each with every single-bit flip and boundary value in header/footer, truncations", t)
}

// ------------------------------------------------------------------------------------------ TRG (C06)
pub fn c06_table(_tier: &str) -> Value {
    let mut t = Tally::new();
    let mut base = vec![0u8; 80];
    let put = |b: &mut Vec<u8>, o: usize, v: u32| b[o..o + 4].copy_from_slice(&v.to_le_bytes());
    let mut bases = Vec::new();
    for (out, sd, dv, inp) in [(0u32, 0u32, 0u32, 0u32), (5, 6, 7, 8), (5, 5, 5, 5), (0x1000_0005, 0x1000_0006, 0x1000_0007, 0x1000_0008),
                               (0xFFFF_FFF0, 0xFFFF_FFF1, 0xFFFF_FFF2, 0xFFFF_FFFF), (9, 8, 10, 11), (9, 10, 9, 11), (9, 10, 12, 11), (0x2000_0001, 2, 3, 4)] {
        let mut b = base.clone();
        put(&mut b, 0, 0x1234); put(&mut b, 4, 0x8000_0000 | (out & 0x0FFF_FFFF)); put(&mut b, 8, 77); put(&mut b, 12, out); put(&mut b, 16, inp);
        put(&mut b, 36, 0x8000_ABCD); put(&mut b, 40, dv); put(&mut b, 44, sd); put(&mut b, 52, 0x00EE_1234); put(&mut b, 64, 0x21); put(&mut b, 68, 0x43);
        put(&mut b, 72, 0xDEAD_BEEF); put(&mut b, 76, 0xE000_0000 | (out & 0x0FFF_FFFF));
        bases.push(b);
    }
    base.clear();
    for b0 in &bases {
        // every single-bit flip of all 80 bytes, plus the generic mutations
        for i in 0..80 { for bit in 0..8 {
            let mut b = b0.clone(); b[i] ^= 1 << bit;
            if t.seen(&b) { continue; }
            t.cases += 1;
            let r = guarded(|| det::trigger::TrgV3Packet::try_from(&b[..]));
            let spec = trg_ok(&b);
            let bad = match &r { Err(p) => Some(format!("panic: {p}")),
                Ok(r) => if r.is_ok() != spec { Some(format!("accepted={} but trg_ok={spec}", r.is_ok())) }
                         else if let Ok(p) = r { if trg_fields_ok(p, &b) { None } else { Some("accessor values differ from the bytes".into()) } } else { None } };
            if let Some(m) = bad { t.fail = Some((m, json!({"op": "trg", "bytes": to_hex(&b)}))); return finish("c06_table", "TrgV3Packet::try_from vs trg_ok", "9 counter settings x every single-bit flip", t); }
        } }
    }
    finish("c06_table", "TrgV3Packet::try_from vs trg_ok", "9 counter settings x every single-bit flip of the 80 bytes", t)
}

// ------------------------------------------------------------------------------------------ chunk (C03)
pub fn c03_table(_tier: &str) -> Value {
    let mut t = Tally::new();
    let real_crc: fn(&[u8]) -> u32 = crc32c::crc32c;
    let mut bases = Vec::new();
    for len in [0usize, 1, 2, 3, 4, 5, 7, 8, 9, 36, 100, 65532, 65533, 65535] {
        let payload: Vec<u8> = (0..len).map(|i| (i * 31 + 7) as u8).collect();
        bases.push(make_chunk(SPEC_PADWING[12].2, 2, 1, 3, &payload));
    }
    // a long slice that declares a short payload followed by zeros (length field must not be taken modulo 2^16)
    {
        let mut b = make_chunk(SPEC_PADWING[12].2, 1, 0, 0, &[1, 2, 3, 4]);
        let crc_pos = b.len() - 4;
        b.truncate(crc_pos);
        b.extend(std::iter::repeat(0).take(65536));
        let p = !crc32c::crc32c(&b[20..]);
        b.extend_from_slice(&p.to_le_bytes());
        bases.push(b);
    }
    // chunks whose padding bytes are NOT zero but are covered by a correct payload CRC word, for every chunk id 0..8 and every
    // unaligned payload length: must be rejected whatever the other header fields are
    for id in 0..8u16 { for len in [1usize, 2, 3, 5, 6, 7] { for flags in 0..2u8 {
        let payload: Vec<u8> = (0..len).map(|i| (i * 13 + 5) as u8).collect();
        let mut b = make_chunk(SPEC_PADWING[3].2, (id % 4) as u8, flags, id, &payload);
        let n = b.len();
        b[n - 5] = 0x5A;                                   // last padding byte
        let p = !crc32c::crc32c(&b[20..n - 4]);
        b[n - 4..].copy_from_slice(&p.to_le_bytes());
        bases.push(b);
    } } }
    for base in &bases {
        let len = base.len();
        mutations(base, &[8, 12, 14], |b| {
            if b.len() > 1000 && b != &base[..] && b.len() == len {
                // long chunks: only the base, header mutations and the tail (skip re-hashing thousands of 64 KiB variants)
                if b[..20] == base[..20] && b[len - 8..] == base[len - 8..] { return true; }
            }
            if t.seen(b) { return true; }
            t.cases += 1;
            let r = guarded(|| det::padwing::Chunk::try_from(b));
            let spec = chunk_ok(b, real_crc);
            let bad = match &r { Err(p) => Some(format!("panic: {p}")),
                Ok(r) => if r.is_ok() != spec { Some(format!("accepted={} but chunk_ok={spec}", r.is_ok())) }
                         else if let Ok(c) = r { match guarded(|| chunk_fields_ok(c, b, real_crc)) { Ok(true) => None, Ok(false) => Some("accessor values (fields or recomputed CRC words) differ from the bytes".into()), Err(p) => Some(format!("accessor panic: {p}")) } } else { None } };
            if let Some(m) = bad { t.fail = Some((m, json!({"op": "chunk", "bytes": to_hex(b)}))); return false; }
            true
        });
        if t.fail.is_some() { break; }
    }
    finish("c03_table", "Chunk::try_from and accessors vs chunk_ok (real CRC-32C)", "15 payload sizes incl. 65535 and an over-long zero-padded slice, each with header/tail bit flips, boundary values, truncations", t)
}

// ------------------------------------------------------------------------------------------ PWB (C05)
fn pwb_packet(sent: &[u16], thr: &[u16], samples: usize, chip: u8, trig: u8) -> Vec<u8> {
    let mut b = vec![0u8; 52];
    b[0] = 2; b[1] = chip; b[2] = 0; b[3] = trig;
    b[4..10].copy_from_slice(&SPEC_PADWING[11].1);
    b[10] = 0x34; b[11] = 0x12;
    b[12..18].copy_from_slice(&[1, 2, 3, 4, 5, 6]);
    b[20..22].copy_from_slice(&300u16.to_le_bytes());
    b[22..24].copy_from_slice(&(samples as u16).to_le_bytes());
    let (mut ms, mut mt) = (0u128, 0u128);
    for &c in sent { ms |= 1u128 << (c - 1); }
    for &c in thr { mt |= 1u128 << (c - 1); }
    b[24..34].copy_from_slice(&ms.to_le_bytes()[..10]);
    b[34..44].copy_from_slice(&mt.to_le_bytes()[..10]);
    b[44..48].copy_from_slice(&0xCAFEu32.to_le_bytes());
    b[48] = 9; b[50] = 1; b[51] = 2;
    let mut s: Vec<u16> = sent.to_vec();
    s.sort();
    for (k, c) in s.iter().enumerate() {
        b.extend_from_slice(&c.to_le_bytes());
        b.extend_from_slice(&(samples as u16).to_le_bytes());
        for i in 0..samples { b.extend_from_slice(&(((k * 100 + i) as i16) - 50).to_le_bytes()); }
        if samples % 2 == 1 { b.extend_from_slice(&[0, 0]); }
    }
    b.extend_from_slice(&[204, 204, 204, 204]);
    b
}
pub fn c05_table(_tier: &str) -> Value {
    let mut t = Tally::new();
    let mut bases = vec![valid_pwb_payload()];
    let all: Vec<u16> = (1..=79).collect();
    for samples in [0usize, 1, 2, 5, 6, 511] {
        bases.push(pwb_packet(&[], &[], samples, b'A', 0));
        bases.push(pwb_packet(&[1], &[79], samples, b'B', 1));
        bases.push(pwb_packet(&[79], &[1, 78, 79], samples, b'C', 3));
        bases.push(pwb_packet(&[4, 16, 17, 67, 78, 79], &[16], samples, b'D', 0));
        if samples <= 6 { bases.push(pwb_packet(&all, &all, samples, b'A', 0)); }
    }
    for c in 1..=79u16 { bases.push(pwb_packet(&[c], &[c], 2, b'A', 0)); bases.push(pwb_packet(&[c, (c % 79) + 1], &[], 3, b'A', 0)); }
    for base in &bases {
        let len = base.len();
        let short = len <= 400;
        let mut check = |b: &[u8]| -> bool {
            if t.seen(b) { return true; }
            t.cases += 1;
            let r = guarded(|| det::padwing::PwbV2Packet::try_from(b));
            let spec = pwb_ok(b);
            let bad = match &r { Err(p) => Some(format!("panic: {p}")),
                Ok(r) => if r.is_ok() != spec { Some(format!("accepted={} but pwb_ok={spec}", r.is_ok())) }
                         else if let Ok(p) = r { match guarded(|| pwb_fields_ok(p, b)) { Ok(true) => None, Ok(false) => Some("accessor values / waveform_at differ from the bytes".into()), Err(p) => Some(format!("accessor panic: {p}")) } } else { None } };
            if let Some(m) = bad { t.fail = Some((m, json!({"op": "pwb", "bytes": to_hex(b)}))); return false; }
            true
        };
        if short { mutations(base, &[20, 22, 52, 54], &mut check); } else { check(base); for i in 0..56 { let mut b = base.clone(); b[i] ^= 0x40; if !check(&b) { break; } } }
        if t.fail.is_some() { break; }
    }
    finish("c05_table", "PwbV2Packet::try_from / waveform_at vs pwb_ok", "every single channel 1..=79 sent, pairs, all 79, 0..511 samples (even and odd), each short packet with header bit flips / boundary values / truncations", t)
}

// ------------------------------------------------------------------------------------------ names (C08)
pub fn c08_names(_tier: &str) -> Value {
    use det::midas::*;
    let mut t = Tally::new();
    // alphabet: all of printable ASCII plus NUL, DEL and the lead/continuation bytes of a 2-byte UTF-8 character
    let mut alpha: Vec<u8> = (0x20u8..0x7f).collect();
    alpha.extend_from_slice(&[0, 0x7f]);
    let first: Vec<u8> = b"ABCPTMSXabcp0Z \0".to_vec();
    let hex = |c: u8| match c { b'0'..=b'9' => Some(c - b'0'), b'A'..=b'F' => Some(c - b'A' + 10), _ => None };
    let b32 = |c: u8| match c { b'0'..=b'9' => Some(c - b'0'), b'A'..=b'V' => Some(c - b'A' + 10), _ => None };
    let mut check = |name: &str| -> Option<String> {
        let b = name.as_bytes();
        let four = b.len() == 4;
        let a16 = four && b[0] == b'B' && alpha16_row_of_name(&b[1..3]).is_some() && hex(b[3]).is_some();
        let a32 = four && b[0] == b'C' && alpha16_row_of_name(&b[1..3]).is_some() && b32(b[3]).is_some();
        let pw = four && &b[..2] == b"PC" && pwb_row_of_name(&b[2..4]).is_some();
        let r = guarded(|| (Adc16BankName::try_from(name).is_ok(), Adc32BankName::try_from(name).is_ok(), PadwingBankName::try_from(name).is_ok(),
                            MainEventBankName::try_from(name).is_ok(), TriggerBankName::try_from(name).is_ok(), Trb3BankName::try_from(name).is_ok(),
                            McVertexBankName::try_from(name).is_ok(), Seq2BankName::try_from(name).is_ok(), ChronoboxBankName::try_from(name).is_ok(),
                            Alpha16BankName::try_from(name).is_ok()));
        match r {
            Err(p) => Some(format!("panic: {p}")),
            Ok(g) => {
                let exp = (a16, a32, pw, a16 || a32 || pw || b == b"ATAT" || b == b"TRBA" || b == b"MCVX", b == b"ATAT", b == b"TRBA", b == b"MCVX", b == b"SEQ2",
                           four && &b[..3] == b"CBF" && (b'1'..=b'4').contains(&b[3]), a16 || a32);
                if g != exp { Some(format!("accepted by {:?}, documented language says {:?}", g, exp)) } else { None }
            }
        }
    };
    'outer: for &c0 in &first { for &c1 in &alpha { for &c2 in &alpha { for &c3 in &alpha {
        let b = [c0, c1, c2, c3];
        // keep the enumeration small: second..fourth characters free only for the prefixes that can matter
        if !(c0 == b'B' || c0 == b'C' || c0 == b'P') && !(c1 == b'B' || c1 == b'R' || c1 == b'C' || c1 == b'T' || c1 == b'E') { continue; }
        let name = match std::str::from_utf8(&b) { Ok(n) => n, Err(_) => continue };
        t.cases += 1;
        t.distinct.insert(u32::from_le_bytes(b) as u64);
        if let Some(m) = check(name) { t.fail = Some((m, json!({"op": "name", "name": to_hex(&b)}))); break 'outer; }
    } } } }
    if t.fail.is_none() {
        // non-ASCII and other lengths
        for name in ["", "B", "B0", "B09", "B0900", "PC123", "P\u{b9}0", "PC\u{b9}", "B\u{b9}0", "\u{b9}\u{b9}", "C0\u{b9}", "\u{10348}", "B09\u{0}", "ATATA", "CBF", "CBF12", "cbf1", "b09a", "B09a", "C09v"] {
            t.cases += 1;
            if let Some(m) = check(name) { t.fail = Some((m, json!({"op": "name", "name": to_hex(name.as_bytes())}))); break; }
        }
    }
    finish("c08_names", "bank-name parsers vs the documented language", "4-character ASCII names with first letter in a 16-character set (all 97^3 tails for B/C/P), plus non-ASCII and other lengths", t)
}
pub fn confirm_name(w: &Value) -> Value {
    use det::midas::*;
    let b = crate::ops::hex(w["name"].as_str().unwrap_or(""));
    let name = match std::str::from_utf8(&b) { Ok(n) => n.to_string(), Err(_) => return json!({"error": "witness is not UTF-8"}) };
    let n2 = name.clone();
    let r = guarded(move || (MainEventBankName::try_from(n2.as_str()).is_ok(), PadwingBankName::try_from(n2.as_str()).is_ok(), Adc16BankName::try_from(n2.as_str()).is_ok(), Adc32BankName::try_from(n2.as_str()).is_ok()));
    let bb = name.as_bytes();
    let doc = bb.len() == 4 && ((bb[0] == b'B' || bb[0] == b'C') && alpha16_row_of_name(&bb[1..3]).is_some() || (&bb[..2] == b"PC" && pwb_row_of_name(&bb[2..4]).is_some()) || bb == b"ATAT" || bb == b"TRBA" || bb == b"MCVX");
    match r { Err(p) => json!({"contradicts": true, "real": format!("panic: {p}"), "spec": format!("documented main-event name: {doc}")}),
              Ok(g) => json!({"contradicts": g.0 != doc && !(doc && !g.0), "real": format!("{name:?}: main/padwing/adc16/adc32 accepted = {g:?}"), "spec": format!("documented main-event name: {doc}")}) }
}
