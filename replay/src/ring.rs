//! C13 index layer, native and bounded: the helper functions of physics/src/deconvolution/wires.rs (pub(crate) there) are cut out
//! verbatim on every build (contracts/frag_ring.vspec) and checked against the cyclic-range specification.
use super::*;
#[allow(dead_code, unused_variables)]
mod frag { include!(concat!(env!("VERIF_FRAG_DIR"), "/frag_ring.rs")); }

fn spec_indices(r: (usize, usize)) -> Vec<usize> { if r.0 < r.1 { (r.0..r.1).collect() } else { (r.0..256).chain(0..r.1).collect() } }

pub fn c13_dims(_tier: &str) -> Value {
    let target = "contiguous_ranges / range_to_indices / range_to_len / problem_dimensions (verbatim text)";
    let bound = "every block shape (first, last) with first, last in a 24-point grid incl. the seam, 3 waveform-length patterns; occupancies built from <= 3 blocks";
    if !frag::FRAG_RING_OK { return json!({"error": "fragment frag_ring not extracted"}); }
    let grid: Vec<usize> = vec![0, 1, 2, 3, 7, 8, 9, 15, 16, 100, 127, 128, 129, 200, 247, 248, 249, 250, 252, 253, 254, 255, 256, 5];
    let mut cases = 0u64;
    let fail = |reason: String, cases: u64| json!({"status": "failed", "target": target, "bound": bound, "cases": cases, "distinct": cases, "reason": reason, "witness": null});
    for pat in 0..3usize {
        let len_of = |w: usize| match pat { 0 => 5, 1 => (w * 7) % 13 + 1, _ => if w < 8 { 40 + w } else { 3 } };
        for &first in &grid { for &last in &grid {
            if first >= 256 || last > 256 || (first >= last && last == 0 && first == 0) { continue; }
            if first == last || (first > last && last == 0) { continue; }   // (f, 0) is never produced: that block is the linear (f, 256)
            let r = (first, last);
            let idx = spec_indices(r);
            if idx.is_empty() || idx.len() > 256 { continue; }
            let mut signals: [Option<Vec<f64>>; 256] = std::array::from_fn(|_| None);
            for &w in &idx { signals[w] = Some(vec![0.0; len_of(w)]); }
            cases += 1;
            let got: Result<(Vec<usize>, usize, (usize, usize)), String> = crate::ops::guarded(|| (frag::range_to_indices(r).collect::<Vec<_>>(), frag::range_to_len(r), frag::problem_dimensions(&signals, r)));
            match got {
                Err(p) => return fail(format!("panic: {p} for block {r:?}"), cases),
                Ok((i, l, d)) => {
                    let max_len = idx.iter().map(|&w| len_of(w)).max().unwrap();
                    if i != idx { return fail(format!("range_to_indices{r:?} is not the cyclic run"), cases); }
                    if l != idx.len() { return fail(format!("range_to_len{r:?} = {l}, block has {} wires", idx.len()), cases); }
                    if d != (max_len, idx.len()) { return fail(format!("problem_dimensions{r:?} = {d:?}, longest waveform in the block has {max_len} samples, block has {} wires (length pattern {pat})", idx.len()), cases); }
                }
            }
            // the decomposition of an occupancy made of this block alone must give back exactly this block
            if first != 0 || last != 256 {
                let c = crate::ops::guarded(|| frag::contiguous_ranges(&signals));
                match c { Err(p) => return fail(format!("panic: {p} in contiguous_ranges for block {r:?}"), cases),
                          Ok(v) => if v != vec![r] { return fail(format!("contiguous_ranges of the single block {r:?} = {v:?}"), cases); } }
            }
        } }
    }
    json!({"status": "bounded-ok", "target": target, "bound": bound, "cases": cases, "distinct": cases})
}
