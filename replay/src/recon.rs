//! C15, bounded: clustering and vertexing through the public API of alpha_g_physics::reconstruction on synthetic point clouds.
//! Stands next to the Verus unit `cluster` (which proves conservation, minimum size and single linkage for every input, given
//! contracts for the Hough accumulator): it corroborates failing proof scaffolding, exercises the accumulator leaves that the
//! proof assumes, and is the only check of the vertexing half of the property.
use super::*;
use crate::ops::guarded;
use alpha_g_physics::reconstruction::{cluster_spacepoints, find_vertices, Track};
use alpha_g_physics::SpacePoint;
use uom::si::angle::radian;
use uom::si::f64::{Angle, Length};
use uom::si::length::meter;

struct Rng(u64);
impl Rng {
    fn next(&mut self) -> u64 { self.0 ^= self.0 << 13; self.0 ^= self.0 >> 7; self.0 ^= self.0 << 17; self.0 }
    fn unit(&mut self) -> f64 { (self.next() >> 11) as f64 / (1u64 << 53) as f64 }
    fn range(&mut self, a: f64, b: f64) -> f64 { a + (b - a) * self.unit() }
    fn below(&mut self, n: u64) -> u64 { self.next() % n }
}

fn sp(r: f64, phi: f64, z: f64) -> SpacePoint { SpacePoint { r: Length::new::<meter>(r), phi: Angle::new::<radian>(phi), z: Length::new::<meter>(z) } }
type Key = (u64, u64, u64);
fn key(p: &SpacePoint) -> Key { (p.r.get::<meter>().to_bits(), p.phi.get::<radian>().to_bits(), p.z.get::<meter>().to_bits()) }
fn xyz(p: &SpacePoint) -> [f64; 3] {
    let (r, phi, z) = (p.r.get::<meter>(), p.phi.get::<radian>(), p.z.get::<meter>());
    [r * phi.cos(), r * phi.sin(), z]
}

/// points of one helix leaving (0, 0, z0) in direction `dir`, curvature radius `rad` (signed), slope dz/ds
fn track(rng: &mut Rng, z0: f64, dir: f64, rad: f64, dzds: f64, step: f64, jitter: f64) -> Vec<SpacePoint> { track_part(rng, z0, dir, rad, dzds, step, jitter, 0.10, 0.21) }

/// the part of such a helix between path lengths s0 and s1 (a short part gives a stub: a legitimate cluster whose track is short)
fn track_part(rng: &mut Rng, z0: f64, dir: f64, rad: f64, dzds: f64, step: f64, jitter: f64, s0: f64, s1: f64) -> Vec<SpacePoint> {
    let mut v = Vec::new();
    let mut s = s0;
    while s < s1 {
        let a = s / rad;
        let (xl, yl) = (rad * a.sin(), rad * (1.0 - a.cos()));
        let (x, y) = (xl * dir.cos() - yl * dir.sin(), xl * dir.sin() + yl * dir.cos());
        let (x, y) = (x + rng.range(-jitter, jitter), y + rng.range(-jitter, jitter));
        let r = x.hypot(y);
        if (0.109..=0.19).contains(&r) { v.push(sp(r, y.atan2(x), z0 + dzds * s + rng.range(-jitter, jitter))); }
        s += step;
    }
    v
}

fn scenario(rng: &mut Rng, n: usize, big: bool) -> (String, Vec<SpacePoint>) {
    let mut pts = Vec::new();
    let name;
    match n % 10 {
        0 => { name = "empty".to_string(); }
        1 => { name = "one point".to_string(); pts.push(sp(0.15, 1.0, 0.0)); }
        2 => {
            // a radial line of exactly k points 6 mm apart, k around the minimum cluster size
            let k = 11 + rng.below(4) as usize;
            name = format!("radial line of {k} points");
            for i in 0..k { pts.push(sp(0.11 + 0.006 * i as f64, 0.3, 0.1)); }
        }
        3 => {
            // the same point many times, plus a line
            let k = 5 + rng.below(30) as usize;
            name = format!("{k} copies of one point and a line");
            for _ in 0..k { pts.push(sp(0.14, -2.0, 0.2)); }
            for i in 0..14 { pts.push(sp(0.11 + 0.005 * i as f64, -2.0, 0.2)); }
        }
        4 => {
            // two tracks in the same direction at different z (more than 3 cm apart)
            name = "two tracks, same direction, different z".to_string();
            let dir = rng.range(-3.1, 3.1);
            pts.extend(track(rng, -0.3, dir, 1.5, 0.2, 0.004, 0.0));
            pts.extend(track(rng, 0.3, dir, 1.5, 0.2, 0.004, 0.0));
        }
        5 => {
            name = "two opposite tracks".to_string();
            let dir = rng.range(-3.1, 3.1);
            pts.extend(track(rng, 0.0, dir, 2.0, 0.1, 0.004, 0.0));
            pts.extend(track(rng, 0.0, dir + std::f64::consts::PI, -2.0, -0.1, 0.004, 0.0));
        }
        6 => {
            // every point of a track twice
            name = "track with every point duplicated".to_string();
            let dir = rng.range(-3.1, 3.1);
            let t = track(rng, 0.1, dir, 0.8, 0.3, 0.004, 0.0);
            for p in t { pts.push(p); pts.push(p); }
        }
        7 => {
            name = "noise only".to_string();
            for _ in 0..(20 + rng.below(if big { 1800 } else { 150 })) { pts.push(sp(rng.range(0.11, 0.19), rng.range(-3.14, 3.14), rng.range(-1.1, 1.1))); }
        }
        _ => {
            let nt = 1 + rng.below(4) as usize;
            let noise = rng.below(if big { 400 } else { 80 }) as usize;
            name = format!("{nt} tracks with jitter and {noise} noise points");
            let z0 = rng.range(-0.8, 0.8);
            for _ in 0..nt {
                let rad = rng.range(0.3, 3.3) * if rng.below(2) == 0 { 1.0 } else { -1.0 };
                let (dir, slope) = (rng.range(-3.14, 3.14), rng.range(-0.8, 0.8));
                pts.extend(track(rng, z0, dir, rad, slope, if big { 0.002 } else { 0.004 }, 0.0005));
            }
            for _ in 0..noise { pts.push(sp(rng.range(0.11, 0.19), rng.range(-3.14, 3.14), rng.range(-1.1, 1.1))); }
        }
    }
    // shuffle
    for i in (1..pts.len()).rev() { let j = rng.below(i as u64 + 1) as usize; pts.swap(i, j); }
    (name, pts)
}

fn sorted_keys<'a>(it: impl Iterator<Item = &'a SpacePoint>) -> Vec<Key> { let mut v: Vec<Key> = it.map(key).collect(); v.sort(); v }

/// connected under single linkage at distance d (own arithmetic; 1e-12 m slack so that rounding never raises an alarm)
fn connected(c: &[SpacePoint], d: f64) -> bool {
    if c.is_empty() { return true; }
    let xs: Vec<[f64; 3]> = c.iter().map(xyz).collect();
    let mut seen = vec![false; c.len()];
    let mut stack = vec![0usize];
    seen[0] = true;
    let mut n = 1;
    while let Some(i) = stack.pop() {
        for j in 0..c.len() {
            if !seen[j] {
                let q = ((xs[i][0] - xs[j][0]).powi(2) + (xs[i][1] - xs[j][1]).powi(2) + (xs[i][2] - xs[j][2]).powi(2)).sqrt();
                if q <= d + 1e-12 { seen[j] = true; n += 1; stack.push(j); }
            }
        }
    }
    n == c.len()
}

fn check_clustering(name: &str, pts: &[SpacePoint]) -> Result<Vec<alpha_g_physics::reconstruction::Cluster>, String> {
    let input = pts.to_vec();
    let res = guarded(move || cluster_spacepoints(input)).map_err(|p| format!("{name}: panic: {p}"))?;
    let mut all: Vec<Key> = res.remainder.iter().map(key).collect();
    for c in &res.clusters { all.extend(c.iter().map(key)); }
    all.sort();
    if all != sorted_keys(pts.iter()) {
        return Err(format!("{name}: {} input points, clusters + remainder hold {} points and are not the same multiset", pts.len(), all.len()));
    }
    for (i, c) in res.clusters.iter().enumerate() {
        let v: Vec<SpacePoint> = c.iter().copied().collect();
        if v.len() < 13 { return Err(format!("{name}: cluster {i} has {} points (< 13)", v.len())); }
        if !connected(&v, 0.03) { return Err(format!("{name}: cluster {i} ({} points) is not connected under 3 cm single linkage", v.len())); }
    }
    Ok(res.clusters)
}

pub fn c15_cluster(tier: &str, seed: u64) -> Value {
    let name = "c15_cluster";
    let target = "reconstruction::cluster_spacepoints (Hough accumulator, best_cluster, largest_cluster, remainder) through the public API";
    let big = tier == "thorough";
    let events = if big { 1000 } else { 200 };
    let bound = format!("{events} synthetic point clouds (seed {seed}): empty, single point, lines of 11..14 points, repeated points, duplicated tracks, parallel and opposite tracks, noise, 1-4 jittered helices with noise; up to {} points", if big { "~2000" } else { "~300" });
    let mut rng = Rng(0x9E3779B97F4A7C15 ^ (seed.wrapping_mul(0x2545F4914F6CDD1D) | 1));
    let mut cases = 0u64;
    let (mut with_clusters, mut clusters_total, mut points_total) = (0u64, 0u64, 0u64);
    for n in 0..events {
        let (sc, pts) = scenario(&mut rng, n, big);
        cases += 1;
        points_total += pts.len() as u64;
        match check_clustering(&format!("event {n} ({sc})"), &pts) {
            Err(e) => return json!({"status": "failed", "target": target, "bound": bound, "check": name, "cases": cases, "distinct": cases, "reason": e,
                                    "witness": {"op": "rerun_native", "check": name, "failing_case": e}}),
            Ok(c) => { if !c.is_empty() { with_clusters += 1; } clusters_total += c.len() as u64; }
        }
    }
    // vacuity guard: the generator is only worth something if the code under test actually forms clusters
    if with_clusters * 3 < cases { return json!({"error": format!("generator too weak: only {with_clusters} of {cases} events produced a cluster")}); }
    json!({"status": "bounded-ok", "target": target, "bound": bound, "cases": cases, "distinct": cases, "check": name,
           "events_with_clusters": with_clusters, "clusters": clusters_total, "points": points_total})
}

// ------------------------------------------------------------------------------------------ vertexing
fn track_key(t: &Track) -> String { format!("{:?}", t) }

fn check_vertexing(name: &str, tracks: &[Track]) -> Result<bool, String> {
    let input = tracks.to_vec();
    let res = guarded(move || find_vertices(input)).map_err(|p| format!("{name}: panic: {p}"))?;
    let mut all: Vec<String> = res.remainder.iter().map(track_key).collect();
    if let Some(v) = &res.primary {
        if v.tracks.len() < 2 { return Err(format!("{name}: primary vertex reported with {} track(s)", v.tracks.len())); }
        all.extend(v.tracks.iter().map(|(t, _)| track_key(t)));
    }
    for v in &res.secondaries { all.extend(v.tracks.iter().map(|(t, _)| track_key(t))); }
    all.sort();
    let mut want: Vec<String> = tracks.iter().map(track_key).collect();
    want.sort();
    if all != want { return Err(format!("{name}: {} input tracks, vertices + remainder hold {} tracks and are not the same multiset", want.len(), all.len())); }
    Ok(res.primary.is_some())
}

pub fn c15_vertex(tier: &str, seed: u64) -> Value {
    let name = "c15_vertex";
    let target = "reconstruction::find_vertices on tracks fitted (Track::try_from) to clusters of synthetic helices, through the public API";
    let big = tier == "thorough";
    let events = if big { 150 } else { 40 };
    let bound = format!("{events} synthetic events (seed {seed}): 1-5 helices from a common vertex plus displaced ones, 2-4 helices each alone at its own z, both also with 1-2 short stubs (clusters of >= 13 points over 2.4 cm); every track list also with its first track repeated, reversed, and cut to one track; lists of 0..=8 tracks");
    let mut rng = Rng(0xD1B54A32D192ED03 ^ (seed.wrapping_mul(0x9E3779B97F4A7C15) | 1));
    let mut cases = 0u64;
    let fail = |e: String, cases: u64| json!({"status": "failed", "target": target, "bound": bound, "check": name, "cases": cases, "distinct": cases, "reason": e,
                                              "witness": {"op": "rerun_native", "check": name, "failing_case": e}});
    if let Err(e) = check_vertexing("no tracks", &[]) { return fail(e, 1); }
    let (mut with_vertex, mut tracks_total) = (0u64, 0u64);
    for n in 0..events {
        // kinds of event: 0 common vertex (last tracks displaced), 1 every track alone at its own z (no two within 3.4 cm),
        // 2 common vertex plus short stubs, 3 isolated tracks plus a stub
        let kind = n % 4;
        let nt = if kind == 1 || kind == 3 { 2 + rng.below(3) as usize } else { 1 + rng.below(5) as usize };
        let z0 = rng.range(-0.6, 0.6);
        let mut tracks: Vec<Track> = Vec::new();
        let mut clouds: Vec<Vec<SpacePoint>> = Vec::new();
        for k in 0..nt {
            let rad = rng.range(0.4, 3.0) * if rng.below(2) == 0 { 1.0 } else { -1.0 };
            let z = if kind == 1 || kind == 3 { -0.7 + 0.35 * k as f64 + rng.range(0.0, 0.1) }
                    else if k >= 3 { z0 + rng.range(0.1, 0.3) } else { z0 };   // the last tracks of larger events start elsewhere
            let (dir, slope) = (rng.range(-3.14, 3.14), if kind == 1 || kind == 3 { rng.range(-0.05, 0.05) } else { rng.range(-0.6, 0.6) });
            clouds.push(track(&mut rng, z, dir, rad, slope, 0.004, 0.0003));
        }
        if kind >= 2 {
            for _ in 0..(1 + rng.below(2)) {
                let (dir, s0, dz) = (rng.range(-3.14, 3.14), rng.range(0.115, 0.15), rng.range(-0.02, 0.02));
                clouds.push(track_part(&mut rng, z0 + dz, dir, 0.2, 0.0, 0.0018, 0.0, s0, s0 + 0.0245));
            }
        }
        for (k, pts) in clouds.iter().enumerate() {
            let clusters = match check_clustering(&format!("event {n} track {k}"), pts) { Ok(c) => c, Err(e) => return fail(e, cases) };
            for c in clusters {
                if let Ok(Ok(t)) = guarded(move || Track::try_from(c)) { tracks.push(t); }
            }
        }
        tracks.truncate(8);
        let mut lists = vec![tracks.clone()];
        if !tracks.is_empty() && tracks.len() < 8 { let mut d = tracks.clone(); d.push(tracks[0]); lists.push(d); }
        let mut r = tracks.clone(); r.reverse(); lists.push(r);
        if tracks.len() > 1 { lists.push(tracks[..1].to_vec()); }
        for (i, l) in lists.iter().enumerate() {
            cases += 1;
            tracks_total += l.len() as u64;
            match check_vertexing(&format!("event {n} list {i} ({} tracks)", l.len()), l) {
                Err(e) => return fail(e, cases),
                Ok(v) => { if v { with_vertex += 1; } }
            }
        }
    }
    if with_vertex * 4 < cases { return json!({"error": format!("generator too weak: only {with_vertex} of {cases} track lists produced a primary vertex")}); }
    json!({"status": "bounded-ok", "target": target, "bound": bound, "cases": cases, "distinct": cases, "check": name,
           "lists_with_primary_vertex": with_vertex, "tracks": tracks_total})
}
