//! Synthetic main events through the public API only (ADC / PWB / TRG banks for the simulation run number, where the shipped
//! calibration is flat: wire baseline 3000, pad baseline 1725, gain 1, delay 100 samples).
//! The encoders below were written by an independent sub-agent for its demonstration of seeded change C13-1
//! (see /verif/seeded/C13-1); they are reused here unchanged apart from visibility and the path of the response files.
#![allow(dead_code)]
use alpha_g_detector::alpha16;
use alpha_g_detector::alpha16::aw_map::{TpcWirePosition, ANODE_WIRE_PITCH_PHI, TPC_ANODE_WIRES};
use alpha_g_detector::padwing;
use alpha_g_detector::padwing::map::{TpcPadPosition, TPC_PAD_COLUMNS, TPC_PAD_ROWS};
use alpha_g_physics::{Avalanche, MainEvent};
use std::collections::BTreeMap;
use uom::si::angle::radian;
use uom::si::length::meter;
use uom::si::time::second;

const RUN_NUMBER: u32 = u32::MAX;
const WIRE_BASELINE: i32 = 3000;
const PAD_BASELINE: i32 = 1725;
const DELAY: usize = 100;
// Number of calibrated samples (i.e. after the delay) in every waveform.
const WIRE_SAMPLES: usize = 600;
const PAD_SAMPLES: usize = 410;
const WIRES_PER_COLUMN: usize = TPC_ANODE_WIRES / TPC_PAD_COLUMNS;
const NEIGHBOR_FACTORS: [f64; 5] = [1.0, -0.1275, -0.0365, -0.012, -0.0042];

fn binned_response(bytes: &[u8], sign: f64) -> Vec<f64> {
    let raw: Vec<f64> = serde_json::from_slice(bytes).unwrap();
    raw.chunks_exact(16)
        .map(|chunk| sign * chunk.iter().sum::<f64>())
        .collect()
}
fn wire_response() -> Vec<f64> {
    binned_response(
        include_bytes!(concat!(env!("VERIF_REPO_DIR"), "/physics/data/simulation/tpc_response/wires.json")),
        1.0,
    )
}
fn pad_response() -> Vec<f64> {
    binned_response(
        include_bytes!(concat!(env!("VERIF_REPO_DIR"), "/physics/data/simulation/tpc_response/pads.json")),
        -1.0,
    )
}

// Calibrated (integer valued) signals of an event.
#[derive(Clone, Debug, Default)]
pub struct Event {
    pub wires: BTreeMap<usize, Vec<i32>>,
    pub pads: BTreeMap<(usize, usize), Vec<i32>>,
}

impl Event {
    // The listed wires carry data (initially a flat signal).
    pub fn with_wires(wires: impl IntoIterator<Item = usize>) -> Self {
        let mut event = Event::default();
        for wire in wires {
            event.wires.insert(wire, vec![0; WIRE_SAMPLES]);
        }
        event
    }
    // Add an avalanche on `wire` at time bin `t0`. The induced signal is added
    // to every neighbouring wire that carries data.
    pub fn add_wire_avalanche(&mut self, wire: usize, t0: usize, amplitude: f64) {
        let response = wire_response();
        for d in -4i64..=4 {
            let neighbor = (wire as i64 + d).rem_euclid(TPC_ANODE_WIRES as i64) as usize;
            let factor = NEIGHBOR_FACTORS[d.unsigned_abs() as usize];
            if let Some(signal) = self.wires.get_mut(&neighbor) {
                for (s, r) in signal[t0..].iter_mut().zip(&response) {
                    *s += (r * amplitude * factor).round() as i32;
                }
            }
        }
    }
    // Add a charge cluster centred on pad (column, row) at time bin `t0`.
    pub fn add_pad_cluster(&mut self, column: usize, row: usize, t0: usize, amplitudes: [f64; 3]) {
        let response = pad_response();
        for (r, amplitude) in (row - 1..=row + 1).zip(amplitudes) {
            let signal = self
                .pads
                .entry((column, r))
                .or_insert_with(|| vec![0; PAD_SAMPLES]);
            for (s, resp) in signal[t0..].iter_mut().zip(&response) {
                *s += (resp * amplitude).round() as i32;
            }
        }
    }
    // Rotate about the detector axis by `k` pad columns.
    pub fn rotated(&self, k: usize) -> Self {
        Event {
            wires: self
                .wires
                .iter()
                .map(|(&w, s)| ((w + WIRES_PER_COLUMN * k) % TPC_ANODE_WIRES, s.clone()))
                .collect(),
            pads: self
                .pads
                .iter()
                .map(|(&(c, r), s)| (((c + k) % TPC_PAD_COLUMNS, r), s.clone()))
                .collect(),
        }
    }
    // Mirror about the detector mid-plane.
    pub fn mirrored(&self) -> Self {
        Event {
            wires: self.wires.clone(),
            pads: self
                .pads
                .iter()
                .map(|(&(c, r), s)| ((c, TPC_PAD_ROWS - 1 - r), s.clone()))
                .collect(),
        }
    }
    pub fn main_event(&self) -> MainEvent {
        let banks = self.banks();
        MainEvent::try_from_banks(
            RUN_NUMBER,
            banks.iter().map(|(name, data)| (&name[..], &data[..])),
        )
        .expect("synthetic event is well-formed")
    }
    pub fn banks(&self) -> Vec<(String, Vec<u8>)> {
        let mut banks = vec![("ATAT".to_string(), trg_bank())];

        let wire_map = wire_map();
        for (wire, signal) in &self.wires {
            let (board, channel) = wire_map[wire];
            let name = format!(
                "C{}{}",
                board.name(),
                char::from_digit(channel.into(), 32)
                    .unwrap()
                    .to_ascii_uppercase()
            );
            banks.push((name, adc_bank(board, channel, signal)));
        }

        let pad_map = pad_map();
        // (board name, after) -> [(readout index, signal)]
        let mut chips: BTreeMap<(String, u8), Vec<(u16, &Vec<i32>)>> = BTreeMap::new();
        for (position, signal) in &self.pads {
            let (board, after, readout_index) = pad_map[position];
            chips
                .entry((board.name().to_string(), after))
                .or_default()
                .push((readout_index, signal));
        }
        for ((board_name, after), mut channels) in chips {
            channels.sort_by_key(|(index, _)| *index);
            let board = padwing::BoardId::try_from(&board_name[..]).unwrap();
            banks.push((format!("PC{board_name}"), pwb_bank(board, after, &channels)));
        }

        banks
    }
}

// wire index -> (board, ADC32 channel)
pub fn wire_map() -> BTreeMap<usize, (alpha16::BoardId, u8)> {
    let mut map = BTreeMap::new();
    for name in ["09", "10", "11", "12", "13", "14", "16", "18"] {
        let board = alpha16::BoardId::try_from(name).unwrap();
        for channel in 0..32u8 {
            let channel_id = alpha16::Adc32ChannelId::try_from(channel).unwrap();
            let position = TpcWirePosition::try_new(RUN_NUMBER, board, channel_id).unwrap();
            map.insert(usize::from(position), (board, channel));
        }
    }
    assert_eq!(map.len(), TPC_ANODE_WIRES);
    map
}

// (pad column, pad row) -> (board, AFTER chip, readout index)
pub fn pad_map() -> BTreeMap<(usize, usize), (padwing::BoardId, u8, u16)> {
    let mut map = BTreeMap::new();
    for n in 0..100 {
        let Ok(board) = padwing::BoardId::try_from(&format!("{n:02}")[..]) else {
            continue;
        };
        for after in 0..4u8 {
            let after_id = padwing::AfterId::try_from(after).unwrap();
            for readout_index in 1..=79u16 {
                let padwing::ChannelId::Pad(pad_channel) =
                    padwing::ChannelId::try_from(readout_index).unwrap()
                else {
                    continue;
                };
                if let Ok(position) =
                    TpcPadPosition::try_new(RUN_NUMBER, board, after_id, pad_channel)
                {
                    map.insert(
                        (usize::from(position.column), usize::from(position.row)),
                        (board, after, readout_index),
                    );
                }
            }
        }
    }
    assert_eq!(map.len(), TPC_PAD_COLUMNS * TPC_PAD_ROWS);
    map
}

pub fn trg_bank() -> Vec<u8> {
    let mut bank = vec![0u8; 80];
    bank[4..8].copy_from_slice(&0x8000_0000u32.to_le_bytes());
    bank[76..80].copy_from_slice(&0xE000_0000u32.to_le_bytes());
    bank
}

pub fn adc_bank(board: alpha16::BoardId, channel: u8, signal: &[i32]) -> Vec<u8> {
    let waveform: Vec<i16> = std::iter::repeat(WIRE_BASELINE)
        .take(DELAY)
        .chain(signal.iter().map(|s| s + WIRE_BASELINE))
        .map(|v| i16::try_from(v).unwrap())
        .collect();
    let requested_samples = u16::try_from(waveform.len() + 2).unwrap();

    let mut bank = vec![1, 3, 0, 0, 0, 128 + channel];
    bank.extend(requested_samples.to_be_bytes());
    bank.extend([0; 4]); // event timestamp (LSW)
    bank.extend([0; 2]);
    bank.extend(board.mac_address());
    bank.extend([0; 4]); // event timestamp (MSW)
    bank.extend([0; 4]); // trigger offset
    bank.extend([0; 4]); // build timestamp
    for sample in waveform {
        bank.extend(sample.to_be_bytes());
    }
    bank.extend(0u16.to_be_bytes()); // no data suppression
    bank.extend((WIRE_BASELINE as i16).to_be_bytes());
    bank
}

// CRC-32C (Castagnoli) as stored in the PWB chunks i.e. without the final
// inversion.
fn pwb_crc(data: &[u8]) -> u32 {
    let mut crc = !0u32;
    for &byte in data {
        crc ^= u32::from(byte);
        for _ in 0..8 {
            crc = if crc & 1 != 0 {
                (crc >> 1) ^ 0x82F6_3B78
            } else {
                crc >> 1
            };
        }
    }
    crc
}

pub fn pwb_bank(board: padwing::BoardId, after: u8, channels: &[(u16, &Vec<i32>)]) -> Vec<u8> {
    let requested_samples = DELAY + PAD_SAMPLES;
    assert!(requested_samples % 2 == 0 && requested_samples <= 511);

    let mut payload = vec![2, b'A' + after, 0, 0];
    payload.extend(board.mac_address());
    payload.extend([0; 2]); // trigger delay
    payload.extend([0; 8]); // trigger timestamp
    payload.extend([0; 2]); // last SCA cell
    payload.extend((requested_samples as u16).to_le_bytes());
    let mut bitmap = 0u128;
    for (readout_index, _) in channels {
        bitmap |= 1 << (readout_index - 1);
    }
    payload.extend(&bitmap.to_le_bytes()[..10]); // channels sent
    payload.extend(&bitmap.to_le_bytes()[..10]); // channels over threshold
    payload.extend([0; 8]); // event counter, FIFO depth, descriptors
    assert_eq!(payload.len(), 52);
    for (readout_index, signal) in channels {
        assert_eq!(signal.len(), PAD_SAMPLES);
        payload.extend(readout_index.to_le_bytes());
        payload.extend((requested_samples as u16).to_le_bytes());
        let waveform = std::iter::repeat(PAD_BASELINE)
            .take(DELAY)
            .chain(signal.iter().map(|s| s + PAD_BASELINE));
        for sample in waveform {
            assert!((-2048..=2047).contains(&sample));
            payload.extend((sample as i16).to_le_bytes());
        }
    }
    payload.extend([0xCC; 4]);
    assert_eq!(payload.len() % 4, 0);

    let mut chunk = Vec::new();
    chunk.extend(board.device_id().to_le_bytes());
    chunk.extend([0; 4]); // packet sequence
    chunk.extend([0; 2]); // channel sequence
    chunk.push(after);
    chunk.push(1); // end of message
    chunk.extend(0u16.to_le_bytes()); // chunk id
    chunk.extend(u16::try_from(payload.len()).unwrap().to_le_bytes());
    let header_crc = pwb_crc(&chunk);
    chunk.extend(header_crc.to_le_bytes());
    let payload_crc = pwb_crc(&payload);
    chunk.extend(payload);
    chunk.extend(payload_crc.to_le_bytes());
    chunk
}

// (wire, t, z, wire amplitude, pad amplitude) of every avalanche, with `wire`
// rotated back by `k` pad columns. The wire is counted from phi = 0.
pub type Key = (usize, u64, u64, u64, u64);
pub fn keys(avalanches: &[Avalanche], k: usize) -> Vec<Key> {
    let mut keys: Vec<_> = avalanches
        .iter()
        .map(|a| {
            let wire = (a.phi.get::<radian>() / ANODE_WIRE_PITCH_PHI - 0.5).round() as usize;
            (
                (wire + TPC_ANODE_WIRES - WIRES_PER_COLUMN * k) % TPC_ANODE_WIRES,
                a.t.get::<second>().to_bits(),
                a.z.get::<meter>().to_bits(),
                a.wire_amplitude.to_bits(),
                a.pad_amplitude.to_bits(),
            )
        })
        .collect();
    keys.sort_unstable();
    keys
}

