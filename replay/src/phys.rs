//! replay ops that need alpha_g_physics (feature `physics`)
use super::*;
use crate::ops::{guarded, to_hex};
use crate::native::make_chunk;
use alpha_g_physics::MainEvent;

/// a CRC-valid PC<board> bank holding one chunk with one pad channel (readout index 4 = pad channel 1) of `n` samples,
/// all zero except sample[idx] = v
pub fn pad_bank(board_row: usize, n: usize, idx: usize, v: i16) -> (String, Vec<u8>) {
    let mut b = vec![0u8; 52];
    b[0] = 2; b[1] = b'A'; b[2] = 0; b[3] = 0;
    b[4..10].copy_from_slice(&SPEC_PADWING[board_row].1);
    b[22..24].copy_from_slice(&(n as u16).to_le_bytes());
    b[24] = 1 << 3;
    b.extend_from_slice(&4u16.to_le_bytes());
    b.extend_from_slice(&(n as u16).to_le_bytes());
    for i in 0..n { b.extend_from_slice(&(if i == idx { v } else { 0 }).to_le_bytes()); }
    if n % 2 == 1 { b.extend_from_slice(&[0, 0]); }
    b.extend_from_slice(&[204, 204, 204, 204]);
    let chunk = make_chunk(SPEC_PADWING[board_row].2, 0, 1, 0, &b);
    (format!("PC{}", SPEC_PADWING[board_row].0), chunk)
}

fn on_big_stack<T: Send + 'static>(f: impl FnOnce() -> T + Send + 'static) -> Result<T, String> {
    std::thread::Builder::new().stack_size(256 << 20).spawn(move || guarded(f)).unwrap().join().unwrap_or(Err("thread died".into()))
}

/// C09: a CRC-valid pad packet whose sample is `v` (baseline comes from the shipped calibration of the simulation run number)
pub fn confirm_pad(w: &Value) -> Value {
    let v = w["v"].as_i64().unwrap_or(-32768) as i16;
    let (name, data) = pad_bank(11, 102, 100, v);
    let (name0, data0) = pad_bank(11, 102, 100, 0);
    let run = u32::MAX;
    let r = on_big_stack(move || MainEvent::try_from_banks(run, [(name.as_str(), &data[..])]).map(|_| ()).map_err(|e| e.to_string()));
    let r0 = on_big_stack(move || MainEvent::try_from_banks(run, [(name0.as_str(), &data0[..])]).map(|_| ()).map_err(|e| e.to_string()));
    json!({"contradicts": r.is_err(), "real": format!("sample {v}: {:?}", r), "spec": format!("returns Ok or a typed Err (same bank with sample 0: {:?})", r0)})
}

// ------------------------------------------------------------------------------------------ C13: symmetry through the public API
use crate::evt::{keys, Event};

fn avalanche_keys(e: Event, k: usize) -> Result<Vec<crate::evt::Key>, String> {
    on_big_stack(move || keys(&e.main_event().avalanches(), k))
}
fn rotation_mismatch(e: &Event, ks: &[usize]) -> Result<Option<(usize, usize, usize)>, String> {
    let reference = avalanche_keys(e.clone(), 0)?;
    for &k in ks {
        let rotated = avalanche_keys(e.rotated(k), k)?;
        if rotated != reference { return Ok(Some((k, reference.len(), rotated.len()))); }
    }
    Ok(None)
}
fn seam_event() -> Event {
    let mut event = Event::with_wires((252..256).chain(0..4));
    event.add_wire_avalanche(255, 20, 40.0);
    event.add_pad_cluster(30, 100, 20, [400.0, 900.0, 500.0]);
    event.add_wire_avalanche(0, 35, 25.0);
    event.add_pad_cluster(31, 400, 35, [300.0, 700.0, 450.0]);
    event
}
fn full_ring_event() -> Event {
    let mut event = Event::with_wires(0..256);
    event.add_wire_avalanche(255, 20, 40.0);
    event.add_pad_cluster(30, 100, 20, [400.0, 900.0, 500.0]);
    event.add_wire_avalanche(0, 35, 25.0);
    event.add_pad_cluster(31, 400, 35, [300.0, 700.0, 450.0]);
    event
}
/// known finding C13.seam_coupling_full_ring, replayed on the real library
pub fn confirm_full_ring(_w: &Value) -> Value {
    match rotation_mismatch(&full_ring_event(), &[1, 5]) {
        Err(p) => json!({"contradicts": true, "real": format!("panic: {p}"), "spec": "avalanches invariant under rotation by whole pad columns"}),
        Ok(Some((k, a, b))) => json!({"contradicts": true, "real": format!("all 256 wires occupied, avalanches on wires 255 and 0: rotating by {k} pad column(s) changes the avalanche list ({a} vs {b} entries / amplitudes differ)"),
                                     "spec": "avalanches invariant under rotation by whole pad columns"}),
        Ok(None) => json!({"contradicts": false, "real": "rotations of the full-ring event give identical avalanches", "spec": "invariant"}),
    }
}
/// bounded: rotation by every whole number of pad columns and the z mirror on a few occupancy patterns (not the full ring)
pub fn c13_sym(tier: &str) -> Value {
    let mut cases = 0u64;
    let target = "MainEvent::avalanches under rotation / mirror (numeric layer, assumption A-NUMERIC-LOCAL)";
    let bound = "6 occupancy patterns x rotations by 1..31 pad columns (quick: 1, 7, 31) + z mirror";
    let ks: Vec<usize> = if tier == "thorough" { (1..32).collect() } else { vec![1, 7, 31] };
    let mut patterns: Vec<(&str, Event)> = vec![("block straddling the 255/0 seam", seam_event())];
    {
        let mut e = Event::with_wires(40..60);
        e.add_wire_avalanche(47, 10, 30.0); e.add_pad_cluster(4, 200, 10, [300.0, 800.0, 400.0]);
        e.add_wire_avalanche(48, 12, 35.0); e.add_pad_cluster(5, 1, 12, [350.0, 900.0, 300.0]);
        patterns.push(("interior block across a pad-column boundary, cluster on the lowest pad rows", e));
    }
    {
        let mut e = Event::with_wires((0..12).chain(100..110).chain(250..256));
        e.add_wire_avalanche(3, 15, 50.0); e.add_pad_cluster(31, 300, 15, [200.0, 600.0, 250.0]);
        e.add_wire_avalanche(104, 25, 20.0); e.add_pad_cluster(12, 574, 25, [300.0, 700.0, 450.0]);
        patterns.push(("three blocks, one wrapping; cluster on the highest pad rows", e));
    }
    {
        let mut e = Event::with_wires(8..16);
        e.add_wire_avalanche(8, 5, 60.0); e.add_pad_cluster(0, 288, 5, [500.0, 1000.0, 500.0]);
        patterns.push(("exactly one pad column of wires", e));
    }
    {
        // a block across the 255/0 seam and a second block in the pad column the first one ends in: contiguous_ranges returns the
        // blocks of one pad column non-adjacently (the wrapped block is reported last)
        let mut e = Event::with_wires((254..256).chain(0..2).chain(4..6));
        // (wire w faces pad column ((w - 8) mod 256) / 8: wire 255 column 30, wires 0..=7 column 31)
        e.add_wire_avalanche(255, 20, 40.0); e.add_pad_cluster(30, 100, 20, [400.0, 900.0, 500.0]);
        e.add_wire_avalanche(0, 35, 25.0); e.add_pad_cluster(31, 400, 35, [300.0, 700.0, 450.0]);
        e.add_wire_avalanche(5, 50, 30.0); e.add_pad_cluster(31, 200, 50, [350.0, 800.0, 300.0]);
        patterns.push(("seam block and a separate block sharing a pad column", e));
    }
    {
        // more pad clusters than wire avalanches in one pad column and time bin, of unequal size, on both sides of z = 0
        let mut e = Event::with_wires(80..88);
        e.add_wire_avalanche(83, 30, 45.0);
        e.add_pad_cluster(9, 60, 30, [300.0, 700.0, 350.0]);
        e.add_pad_cluster(9, 500, 30, [500.0, 1200.0, 600.0]);
        e.add_wire_avalanche(85, 60, 30.0); e.add_wire_avalanche(81, 60, 35.0);
        e.add_pad_cluster(9, 150, 60, [600.0, 1300.0, 500.0]);
        e.add_pad_cluster(9, 300, 60, [250.0, 600.0, 300.0]);
        e.add_pad_cluster(9, 450, 60, [400.0, 950.0, 420.0]);
        patterns.push(("more pad clusters than wire avalanches in one column and time bin", e));
    }
    for (name, e) in &patterns {
        cases += ks.len() as u64 + 1;
        match rotation_mismatch(e, &ks) {
            Err(p) => return json!({"status": "failed", "target": target, "bound": bound, "cases": cases, "distinct": cases, "reason": format!("{name}: panic {p}"), "witness": null}),
            Ok(Some((k, _, _))) => return json!({"status": "failed", "target": target, "bound": bound, "cases": cases, "distinct": cases,
                "reason": format!("{name}: avalanches change under rotation by {k} pad column(s)"), "witness": null}),
            Ok(None) => {}
        }
        // mirror: same wires, times, amplitudes; z negated
        let a = match avalanche_keys(e.clone(), 0) { Ok(a) => a, Err(p) => return json!({"status": "failed", "target": target, "bound": bound, "cases": cases, "distinct": cases, "reason": p, "witness": null}) };
        let m = match on_big_stack({ let e = e.mirrored(); move || e.main_event().avalanches() }) { Ok(m) => m, Err(p) => return json!({"status": "failed", "target": target, "bound": bound, "cases": cases, "distinct": cases, "reason": p, "witness": null}) };
        use uom::si::length::meter;
        let mut zs: Vec<(u64, i64)> = m.iter().map(|x| (x.wire_amplitude.to_bits(), (-x.z.get::<meter>() * 1e9).round() as i64)).collect();
        let mut za: Vec<(u64, i64)> = a.iter().map(|k| (k.3, (f64::from_bits(k.2) * 1e9).round() as i64)).collect();
        zs.sort(); za.sort();
        if zs != za {
            return json!({"status": "failed", "target": target, "bound": bound, "cases": cases, "distinct": cases,
                "reason": format!("{name}: mirrored event gives {} avalanches / different z, original {}", m.len(), a.len()), "witness": null});
        }
    }
    json!({"status": "bounded-ok", "target": target, "bound": bound, "cases": cases, "distinct": cases})
}

// ------------------------------------------------------------------------------------------ C09 / C10: bounded event-level tables
use alpha_g_detector::{alpha16, padwing};

const SIM: u32 = u32::MAX;
fn trg(ts: u32) -> Vec<u8> {
    let mut b = vec![0u8; 80];
    b[4..8].copy_from_slice(&0x8000_0000u32.to_le_bytes());
    b[8..12].copy_from_slice(&ts.to_le_bytes());
    b[76..80].copy_from_slice(&0xE000_0000u32.to_le_bytes());
    b
}
/// non-suppressed ADC32 packet carrying exactly `raw` (>= 64 samples), footer baseline = floor mean of the first 64
fn adc_raw(board: alpha16::BoardId, channel_byte: u8, raw: &[i16]) -> Vec<u8> {
    let mut b = vec![1, 3, 0, 0, 0, channel_byte];
    b.extend(((raw.len() + 2) as u16).to_be_bytes());
    b.extend([0; 4]); b.extend([0; 2]); b.extend(board.mac_address()); b.extend([0; 12]);
    for s in raw { b.extend(s.to_be_bytes()); }
    b.extend(0u16.to_be_bytes());
    let sum: i64 = raw.iter().take(64).map(|&x| x as i64).sum();
    b.extend((sum.div_euclid(64) as i16).to_be_bytes());
    b
}
fn pwb_payload(board: padwing::BoardId, after: u8, n: usize, channels: &[(u16, Vec<i16>)]) -> Vec<u8> {
    pwb_payload_thr(board, after, n, channels, None)
}
/// `thr`: the over-threshold mask (default: the sent mask); sent and over-threshold channels are independent in the format
fn pwb_payload_thr(board: padwing::BoardId, after: u8, n: usize, channels: &[(u16, Vec<i16>)], thr: Option<u128>) -> Vec<u8> {
    let mut p = vec![2, b'A' + after, 0, 0];
    p.extend(board.mac_address()); p.extend([0; 12]);
    p.extend((n as u16).to_le_bytes());
    let mut bm = 0u128;
    for (i, _) in channels { bm |= 1 << (i - 1); }
    p.extend(&bm.to_le_bytes()[..10]); p.extend(&thr.unwrap_or(bm).to_le_bytes()[..10]); p.extend([0; 8]);
    for (i, w) in channels {
        p.extend(i.to_le_bytes()); p.extend((n as u16).to_le_bytes());
        for k in 0..n { p.extend(w.get(k).copied().unwrap_or(1725).to_le_bytes()); }
        if n % 2 == 1 { p.extend([0, 0]); }
    }
    p.extend([0xCC; 4]);
    p
}
fn pwb_chunks(board: padwing::BoardId, after: u8, payload: &[u8], pieces: usize) -> Vec<Vec<u8>> {
    let step = ((payload.len() / pieces) / 4 * 4).max(4);
    let mut out = Vec::new();
    let mut at = 0;
    let mut id = 0u16;
    while at < payload.len() {
        let end = if out.len() + 1 == pieces { payload.len() } else { (at + step).min(payload.len()) };
        out.push(make_chunk(board.device_id(), after, (end == payload.len()) as u8, id, &payload[at..end]));
        at = end; id += 1;
    }
    out
}
fn wire_of(board: &str, ch: u8) -> (alpha16::BoardId, u8) { (alpha16::BoardId::try_from(board).unwrap(), ch) }
fn wire_name(board: &str, ch: u8) -> String { format!("C{board}{}", char::from_digit(ch as u32, 32).unwrap().to_ascii_uppercase()) }

type Banks = Vec<(String, Vec<u8>)>;
fn run_event(banks: Banks, full: bool) -> Result<Result<u32, String>, String> {
    on_big_stack(move || {
        match MainEvent::try_from_banks(SIM, banks.iter().map(|(n, d)| (&n[..], &d[..]))) {
            Err(e) => Err(e.to_string()),
            Ok(ev) => { let t = ev.timestamp(); if full { let _ = ev.avalanches(); let _ = ev.vertex(); } Ok(t) }
        }
    })
}
/// C09 (bounded): extreme but representable CRC-valid packets never make assembling / reconstructing panic
pub fn c09_event(tier: &str) -> Value {
    let target = "MainEvent::try_from_banks + timestamp + avalanches + vertex";
    let bound = "wire waveforms of 64..700 samples and pad packets of 0..511 samples around the calibration delay, sample values in {0, baseline, +-2047, i16::MIN, i16::MAX}; isolated, neighbouring and full-ring occupancy; single avalanches in time bins 0, 1, 134, 266..=270, 300, 400 (the edges of the drift table) at three pad rows";
    let mut cases = 0u64;
    let pb = padwing::BoardId::try_from("12").unwrap();
    let vals: [i16; 6] = [0, 3000, 2047, -2048, i16::MIN, i16::MAX];
    let wire_lens: Vec<usize> = if tier == "thorough" { (64..=140).chain([164, 300, 699, 700]).collect() } else { vec![64, 65, 99, 100, 101, 102, 103, 110, 116, 117, 118, 130, 700] };
    let pad_lens: Vec<usize> = if tier == "thorough" { (0..=130).chain([200, 410, 510, 511]).collect() } else { vec![0, 1, 2, 99, 100, 101, 102, 103, 110, 116, 117, 118, 130, 511] };
    let fail = |reason: String, cases: u64, banks: &Banks| json!({"status": "failed", "target": target, "bound": bound, "cases": cases, "distinct": cases, "reason": reason,
        "witness": {"op": "event", "banks": banks.iter().map(|(n, d)| json!([n, to_hex(d)])).collect::<Vec<_>>()}});
    for &n in &wire_lens {
        for &v in &vals {
            for spike in [false, true] {
                let mut raw = vec![3000i16; n];
                if spike { let k = n - 1; raw[k] = v; raw[n / 2] = v; } else { for x in raw.iter_mut().skip(64) { *x = v; } }
                // an isolated wire, and the same wire with a neighbour of normal length
                for neighbour in [false, true] {
                    let (b, ch) = wire_of("09", 0);
                    let mut banks: Banks = vec![("ATAT".into(), trg(7)), (wire_name("09", ch), adc_raw(b, 128 + ch, &raw))];
                    if neighbour { let (b2, c2) = wire_of("09", 1); banks.push((wire_name("09", c2), adc_raw(b2, 128 + c2, &vec![3000i16; 700]))); }
                    cases += 1;
                    match run_event(banks.clone(), true) { Err(p) => return fail(format!("panic: {p} (wire waveform of {n} samples, value {v})"), cases, &banks), Ok(_) => {} }
                }
            }
        }
    }
    for &n in &pad_lens {
        for &v in &vals {
            let w: Vec<i16> = (0..n).map(|k| if k % 7 == 3 || k + 1 == n { v } else { 1725 }).collect();
            for with_wires in [false, true] {
                let payload = pwb_payload(pb, 0, n, &[(4, w.clone()), (5, vec![1725; n])]);
                let mut banks: Banks = vec![("ATAT".into(), trg(9))];
                for c in pwb_chunks(pb, 0, &payload, 1) { banks.push(("PC12".into(), c)); }
                if with_wires {
                    for name in ["09", "10", "11", "12", "13", "14", "16", "18"] { for ch in 0..32u8 {
                        let (b, c) = wire_of(name, ch);
                        let mut raw = vec![3000i16; 300]; raw[150] = 3400; raw[151] = 3300;
                        banks.push((wire_name(name, c), adc_raw(b, 128 + c, &raw)));
                    } }
                }
                cases += 1;
                match run_event(banks.clone(), true) { Err(p) => return fail(format!("panic: {p} (pad packet of {n} samples, value {v}, wires: {with_wires})"), cases, &banks), Ok(_) => {} }
                if with_wires && tier != "thorough" && n > 2 && n != 511 { break; }
            }
        }
    }
    // ties: bit-equal amplitudes on three adjacent pads (saturation, pulser patterns) and on neighbouring wires, with coincident
    // wire data in the same pad column -- reconstruction must return normally (no NaN may reach an unwrap)
    for (pads, wires) in [([900.0, 900.0, 900.0], [40.0, 40.0]), ([500.0, 500.0, 200.0], [30.0, 30.0]), ([300.0, 800.0, 800.0], [25.0, 60.0])] {
        let mut e = crate::evt::Event::with_wires(40..56);
        e.add_wire_avalanche(44, 20, wires[0]);
        e.add_wire_avalanche(45, 20, wires[1]);
        e.add_pad_cluster(4, 200, 20, pads);
        e.add_pad_cluster(4, 300, 20, pads);
        let banks: Banks = e.banks();
        cases += 1;
        match run_event(banks.clone(), true) { Err(p) => return fail(format!("panic: {p} (equal amplitudes {pads:?} on three adjacent pads)"), cases, &banks), Ok(_) => {} }
    }
    // avalanches at every edge of the drift table: time bins 0, 1 and 266..=270 (bin 268 = 4.288 us is bit-for-bit the last tabulated
    // drift time at z = 0), and bins beyond it, at the first, a middle and the last pad rows -- every avalanche goes through
    // SpacePoint::try_from inside vertex(), whose errors are meant to be dropped, not to panic
    for t0 in [0usize, 1, 134, 266, 267, 268, 269, 270, 300, 400] {
        for row in [1usize, 288, 574] {
            let mut e = crate::evt::Event::with_wires(40..56);
            e.add_wire_avalanche(44, t0, 60.0);
            e.add_pad_cluster(4, row, t0, [300.0, 900.0, 350.0]);
            let banks: Banks = e.banks();
            cases += 1;
            match run_event(banks.clone(), true) { Err(p) => return fail(format!("panic: {p} (avalanche in time bin {t0} at pad row {row})"), cases, &banks), Ok(_) => {} }
        }
    }
    // sent and over-threshold masks differ in both directions (forced channels / suppression quirks)
    for thr in [0u128, 1 << 3, (1 << 3) | (1 << 4) | (1 << 40), (1u128 << 79) - 1] {
        let payload = pwb_payload_thr(pb, 0, 150, &[(4, vec![1800; 150]), (5, vec![1725; 150])], Some(thr));
        let mut banks: Banks = vec![("ATAT".into(), trg(9))];
        for c in pwb_chunks(pb, 0, &payload, 2) { banks.push(("PC12".into(), c)); }
        cases += 1;
        match run_event(banks.clone(), true) { Err(p) => return fail(format!("panic: {p} (over-threshold mask {thr:#x} differs from the sent mask)"), cases, &banks), Ok(_) => {} }
    }
    json!({"status": "bounded-ok", "target": target, "bound": bound, "cases": cases, "distinct": cases})
}

/// C10 (bounded decision table): every rejection clause of the statement, and the accepted cases next to them
pub fn c10_table(_tier: &str) -> Value {
    let target = "MainEvent::try_from_banks: rejection clauses and timestamp";
    let bound = "one representative per rejection clause of the property statement, with its accepted neighbour; multi-chunk pad packets misnamed at each position";
    let pb = padwing::BoardId::try_from("12").unwrap();
    let good_wire = |name: &str, ch: u8| { let (b, c) = wire_of(name, ch); (wire_name(name, c), adc_raw(b, 128 + c, &vec![3000i16; 300])) };
    let payload = pwb_payload(pb, 1, 150, &[(4, vec![1725; 150]), (30, vec![1700; 150])]);
    let mut table: Vec<(&str, Banks, bool)> = Vec::new();   // (what, banks, expect Ok)
    let t = || ("ATAT".to_string(), trg(0x0102_0304));
    table.push(("plain event", vec![t(), good_wire("09", 3), good_wire("10", 31)], true));
    table.push(("missing TRG bank", vec![good_wire("09", 3)], false));
    table.push(("duplicate TRG bank", vec![t(), t()], false));
    table.push(("unknown bank name", vec![t(), ("XXXX".into(), vec![1, 2, 3])], false));
    table.push(("lower-case bank name", vec![t(), ("c093".into(), good_wire("09", 3).1)], false));
    table.push(("duplicate wire bank", vec![t(), good_wire("09", 3), good_wire("09", 3)], false));
    // copies with fewer samples than the calibration delay (100 for the simulation run number) leave nothing to store
    let short_wire = |name: &str, ch: u8| { let (b, c) = wire_of(name, ch); (wire_name(name, c), adc_raw(b, 128 + c, &vec![3000i16; 80])) };
    table.push(("single wire bank shorter than the delay", vec![t(), short_wire("09", 3)], true));
    table.push(("duplicate wire bank, second copy shorter than the delay", vec![t(), good_wire("09", 3), short_wire("09", 3)], false));
    // the order of the copies must not matter (fixed in /repo commit fac8979: the first of these two used to be accepted)
    table.push(("duplicate wire bank, first copy shorter than the delay", vec![t(), short_wire("09", 3), good_wire("09", 3)], false));
    table.push(("duplicate wire bank, both copies shorter than the delay", vec![t(), short_wire("09", 3), short_wire("09", 3)], false));
    table.push(("wire bank name / payload board mismatch", vec![t(), (wire_name("10", 3), good_wire("09", 3).1)], false));
    table.push(("wire bank name / payload channel mismatch", vec![t(), (wire_name("09", 4), good_wire("09", 3).1)], false));
    { let (b, _) = wire_of("09", 0); table.push(("wire bank holding a barrel-veto (ADC16) channel", vec![t(), ("C093".into(), adc_raw(b, 3, &vec![3000i16; 300]))], false)); }
    table.push(("malformed wire payload", vec![t(), ("C093".into(), vec![1, 3, 0, 0])], false));
    table.push(("malformed TRG payload", vec![("ATAT".into(), vec![0u8; 79])], false));
    { let (b, _) = wire_of("09", 0); table.push(("barrel-veto bank is ignored", vec![t(), ("B093".into(), adc_raw(b, 3, &vec![100i16; 300]))], true)); }
    table.push(("TRB3 / MC vertex banks are ignored", vec![t(), ("TRBA".into(), vec![9; 11]), ("MCVX".into(), vec![1; 5])], true));
    for pieces in 1..=3usize {
        let chunks = pwb_chunks(pb, 1, &payload, pieces);
        let n = chunks.len();
        let mut ok: Banks = vec![t()];
        for c in &chunks { ok.push(("PC12".into(), c.clone())); }
        table.push(("pad packet, correctly named", ok.clone(), true));
        for bad in 0..n {
            let mut b: Banks = vec![t()];
            for (i, c) in chunks.iter().enumerate() { b.push(((if i == bad { "PC13" } else { "PC12" }).into(), c.clone())); }
            table.push(("pad bank misnamed at one chunk position", b, false));
        }
        let mut dup = ok.clone(); dup.push(("PC12".into(), chunks[0].clone()));
        table.push(("pad chunk duplicated", dup, false));
        if n > 1 { let mut miss: Banks = vec![t()]; for c in &chunks[1..] { miss.push(("PC12".into(), c.clone())); } table.push(("pad chunk missing", miss, false)); }
    }
    { let mut c = pwb_chunks(pb, 1, &payload, 1)[0].clone(); let k = c.len() - 9; c[k] ^= 1; table.push(("pad chunk with a flipped payload bit", vec![t(), ("PC12".into(), c)], false)); }
    let mut cases = 0u64;
    for (what, banks, expect_ok) in &table {
        cases += 1;
        let r = run_event(banks.clone(), false);
        let w = json!({"op": "event", "banks": banks.iter().map(|(n, d)| json!([n, to_hex(d)])).collect::<Vec<_>>(), "expect_ok": expect_ok});
        let bad = match &r {
            Err(p) => Some(format!("{what}: panic {p}")),
            Ok(Ok(ts)) => if !*expect_ok { Some(format!("{what}: accepted, must be rejected")) } else if *ts != 0x0102_0304 { Some(format!("{what}: timestamp {ts:#x} is not the TRG timestamp")) } else { None },
            Ok(Err(e)) => if *expect_ok { Some(format!("{what}: rejected ({e}), must be accepted")) } else { None },
        };
        if let Some(reason) = bad { return json!({"status": "failed", "target": target, "bound": bound, "cases": cases, "distinct": cases, "reason": reason, "witness": w}); }
    }
    json!({"status": "bounded-ok", "target": target, "bound": bound, "cases": cases, "distinct": cases})
}
pub fn confirm_event(w: &Value) -> Value {
    let banks: Banks = w["banks"].as_array().map(|a| a.iter().map(|p| (p[0].as_str().unwrap_or("").to_string(), crate::ops::hex(p[1].as_str().unwrap_or("")))).collect()).unwrap_or_default();
    let expect_ok = w.get("expect_ok").and_then(|x| x.as_bool());
    match run_event(banks, true) {
        Err(p) => json!({"contradicts": true, "real": format!("panic: {p}"), "spec": "an event or a typed error; reconstruction returns normally"}),
        Ok(r) => json!({"contradicts": expect_ok.map(|e| e != r.is_ok()).unwrap_or(false), "real": format!("{r:?}"), "spec": format!("expected accepted: {expect_ok:?}")}),
    }
}

// ------------------------------------------------------------------------------------------ C19: input files (bounded)
/// sort_run_files: files of one run in any command-line order come back sorted by initial timestamp; files of different runs and
/// duplicate initial timestamps are refused; unknown extensions are refused
pub fn c19_sort(_tier: &str) -> Value {
    let target = "alpha_g_analysis::sort_run_files";
    let bound = "every assignment of (run in {42, 43}, initial timestamp in {100, 200, 300, 400}) to 1..=4 files, in every command-line order";
    let dir = std::env::temp_dir().join(format!("verif-c19-{}", std::process::id()));
    let _ = std::fs::create_dir_all(&dir);
    let mut cases = 0u64;
    let mut fail: Option<String> = None;
    'outer: for n in 1..=4usize {
        let combos = 8usize.pow(n as u32);
        for code in 0..combos {
            let mut c = code;
            let mut files = Vec::new();
            for i in 0..n {
                let (run, ts) = (42 + (c % 2) as u32, 100 * (1 + ((c / 2) % 4) as u32));
                c /= 8;
                let path = dir.join(format!("f{n}_{code}_{i}.mid"));
                let mut b = vec![0x00u8, 0x80, 0x4D, 0x49];
                b.extend(run.to_le_bytes()); b.extend(ts.to_le_bytes());
                std::fs::write(&path, &b).unwrap();
                files.push((run, ts, path));
            }
            cases += 1;
            let paths: Vec<std::path::PathBuf> = files.iter().map(|f| f.2.clone()).collect();
            let r = guarded(|| alpha_g_analysis::sort_run_files(paths.clone()));
            let same_run = files.iter().all(|f| f.0 == files[0].0);
            let mut ts: Vec<u32> = files.iter().map(|f| f.1).collect();
            ts.sort();
            let dup = ts.windows(2).any(|w| w[0] == w[1]);
            let verdict = match r {
                Err(p) => Some(format!("panic: {p}")),
                Ok(Ok((run, sorted))) => {
                    if !same_run { Some("files of different runs accepted".into()) }
                    else if dup { Some("duplicate initial timestamps accepted".into()) }
                    else {
                        let mut exp = files.clone(); exp.sort_by_key(|f| f.1);
                        if run != files[0].0 || sorted != exp.iter().map(|f| f.2.clone()).collect::<Vec<_>>() { Some("files not returned in order of initial timestamp".into()) } else { None }
                    }
                }
                Ok(Err(_)) => if same_run && !dup { Some("well-formed set of files refused".into()) } else { None },
            };
            for f in &files { let _ = std::fs::remove_file(&f.2); }
            if let Some(v) = verdict { fail = Some(format!("{v}: (run, initial timestamp) per file in command-line order = {:?}", files.iter().map(|f| (f.0, f.1)).collect::<Vec<_>>())); break 'outer; }
        }
    }
    if fail.is_none() {
        let p = dir.join("x.dat");
        std::fs::write(&p, [0u8; 12]).unwrap();
        cases += 1;
        if alpha_g_analysis::sort_run_files(vec![p.clone()]).is_ok() { fail = Some("unknown extension accepted".into()); }
        let _ = std::fs::remove_file(&p);
    }
    let _ = std::fs::remove_dir_all(&dir);
    match fail {
        None => json!({"status": "bounded-ok", "target": target, "bound": bound, "cases": cases, "distinct": cases}),
        Some(reason) => json!({"status": "failed", "target": target, "bound": bound, "cases": cases, "distinct": cases, "reason": reason, "witness": null}),
    }
}
