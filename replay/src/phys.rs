//! replay ops that need alpha_g_physics (feature `physics`)
use super::*;
use crate::ops::{guarded, to_hex};
use crate::native::make_chunk;
use alpha_g_physics::MainEvent;

/// a CRC-valid PC<board> bank holding one chunk with one pad channel (readout index 4 = pad channel 1) of `n` samples,
/// all zero except sample[idx] = v
pub fn pad_bank(board_row: usize, n: usize, idx: usize, v: i16) -> (String, Vec<u8>) {
    let mut b = vec![0u8; 52];
    b[0] = 2; b[1] = b'A'; b[2] = 0; b[3] = 0;
    b[4..10].copy_from_slice(&SPEC_PADWING[board_row].1);
    b[22..24].copy_from_slice(&(n as u16).to_le_bytes());
    b[24] = 1 << 3;
    b.extend_from_slice(&4u16.to_le_bytes());
    b.extend_from_slice(&(n as u16).to_le_bytes());
    for i in 0..n { b.extend_from_slice(&(if i == idx { v } else { 0 }).to_le_bytes()); }
    if n % 2 == 1 { b.extend_from_slice(&[0, 0]); }
    b.extend_from_slice(&[204, 204, 204, 204]);
    let chunk = make_chunk(SPEC_PADWING[board_row].2, 0, 1, 0, &b);
    (format!("PC{}", SPEC_PADWING[board_row].0), chunk)
}

fn on_big_stack<T: Send + 'static>(f: impl FnOnce() -> T + Send + 'static) -> Result<T, String> {
    std::thread::Builder::new().stack_size(256 << 20).spawn(move || guarded(f)).unwrap().join().unwrap_or(Err("thread died".into()))
}

/// C09: a CRC-valid pad packet whose sample is `v` (baseline comes from the shipped calibration of the simulation run number)
pub fn confirm_pad(w: &Value) -> Value {
    let v = w["v"].as_i64().unwrap_or(-32768) as i16;
    let (name, data) = pad_bank(11, 102, 100, v);
    let (name0, data0) = pad_bank(11, 102, 100, 0);
    let run = u32::MAX;
    let r = on_big_stack(move || MainEvent::try_from_banks(run, [(name.as_str(), &data[..])]).map(|_| ()).map_err(|e| e.to_string()));
    let r0 = on_big_stack(move || MainEvent::try_from_banks(run, [(name0.as_str(), &data0[..])]).map(|_| ()).map_err(|e| e.to_string()));
    json!({"contradicts": r.is_err(), "real": format!("sample {v}: {:?}", r), "spec": format!("returns Ok or a typed Err (same bank with sample 0: {:?})", r0)})
}
