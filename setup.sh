#!/bin/bash
# offline setup: nothing to fetch; warm the caches the checks use (Kani target dir, replay crate)
cd "$(dirname "$0")"
mkdir -p work evidence
python3 -c "import sys; sys.path.insert(0,'.'); from vtool import native; print('replay crate:', native._build('/repo', '$(pwd)')[0])" || true
exit 0
