#!/bin/bash
# offline setup: nothing to fetch; warm the caches the checks use (replay crate incl. physics + analysis libraries, analysis binaries)
cd "$(dirname "$0")"
mkdir -p work evidence
python3 -c "
import sys; sys.path.insert(0,'.')
from vtool import native, csvcheck
print('replay crate:', native._build('/repo', '$(pwd)', physics=True))
print('analysis binaries:', csvcheck.build('/repo', '$(pwd)', ['alpha-g-trg-scalers', 'alpha-g-vertices', 'alpha-g-chronobox-timestamps'])[1] or 'ok')
" || true
exit 0
