#!/bin/bash
# offline setup: nothing to fetch; warm the caches the checks use (replay crate incl. the physics crate; Kani build of the detector crate)
cd "$(dirname "$0")"
mkdir -p work evidence
python3 -c "
import sys; sys.path.insert(0,'.')
from vtool import native
print('replay crate:', native._build('/repo', '$(pwd)', physics=True))
" || true
exit 0
