NOTES = ("Contract-based deductive verification of the real code. exit 0 = all obligations discharged; exit 1 = VIOLATION; "
         "exit 2 = undecided (lost anchor, unsupported construct, tool limit) and is never an alarm. See DESIGN.md.")

NOT_APPLICABLE = {
    "C04": "not reached yet (reassembly glue contracts under construction)",
    "C07": "not reached yet",
    "C08": "not reached yet",
    "C09": "not reached yet",
    "C10": "not reached yet",
    "C11": "relational property over HashMap iteration order, thread/process identity and an f64 pipeline; no contract within reach of Verus/Kani expresses it (DESIGN §4 C11)",
    "C12": "statistical statement over >=200 simulated events about an end-to-end numeric chain measured against an independent forward model; not a per-function contract (DESIGN §4 C12)",
    "C13": "not reached yet",
    "C14": "totality/finiteness over a continuous domain through Nelder-Mead, complex arithmetic and transcendentals; Verus leaves floats uninterpreted, CBMC cannot unroll the minimiser (DESIGN §4 C14)",
    "C15": "partition argument runs through IndexMap, iterator chains with closures and f64 equality; thresholds put any Kani bound below the point where the code does anything (DESIGN §4 C15)",
    "C16": "global optimality of a Newton solve of Kepler's equation over transcendental functions: numerical analysis, not a contract (DESIGN §4 C16)",
    "C17": "bit-for-bit and relative-error claims on f64 loops built from iterator chains; Verus has no float theory and the smallest relevant input is beyond bit-precise CBMC (DESIGN §4 C17)",
    "C18": "not reached yet",
    "C19": "not reached yet",
    "C20": "not reached yet",
}

_COMMON_NOTE = ("Trusted: Verus/Z3, rustc, Kani/CBMC, vstd specs of core/alloc, the extractor's rewrite rules (reported per run in evidence.coverage.rules_fired), "
                "and every external_body leaf / assume_specification listed in evidence.assumptions. usize is 64-bit; slices are at most isize::MAX bytes.")

TEXT = {
    "C01": {
        "technique": "Verus safety obligations on extracted decoder bodies + Kani complete/bounded harnesses",
        "design_ref": "DESIGN.md §4 C01",
        "level_text": "Every overflow/underflow, index, slice-range, unwrap and loop-termination obligation that Verus generates for the real bodies of the TRG, ADC, chunk and PWB decoders and the id conversions is discharged for all inputs (no bound); TRG additionally by a complete Kani proof over all 80-byte slices.",
        "level_note": _COMMON_NOTE + " Iterator chains lifted to external_body leaves are assumed panic-free under their stated preconditions (cross-checked by Kani harnesses, bounded where stated). String parsers and the Chronobox combinator parser are outside Verus.",
    },
    "C02": {
        "technique": "Verus postcondition accept <=> adc_ok(bytes) and field equalities on the extracted AdcV3Packet::try_from",
        "design_ref": "DESIGN.md §4 C02",
        "level_text": "AdcV3Packet::try_from(&[u8]) is proved to return Ok exactly when the mathematical predicate adc_ok (transcribed from the property statement) holds, for slices of every length, and every field of the result is proved equal to its big-endian view of the input.",
        "level_note": _COMMON_NOTE + " Assumed leaves: sample collection (chunks_exact/map/collect), 64-sample sum, [msw,lsw].concat(), Vec->[u8;8], MAC-table loop; std from_be_bytes contracts.",
    },
    "C03": {
        "technique": "Verus postcondition accept <=> chunk_ok(bytes) with both CRC words bound to exact byte ranges; coverage lemma",
        "design_ref": "DESIGN.md §4 C03",
        "level_text": "Chunk::try_from(&[u8]) is proved to accept exactly the slices satisfying chunk_ok, in which the two CRC words are the inverted CRC-32C of bytes [0,16) and [20,len-4); a lemma shows these ranges and the two CRC words partition every accepted slice; header_crc32c/payload_crc32c are proved to recompute the same words from the fields.",
        "level_note": _COMMON_NOTE + " crc32c::crc32c is an uninterpreted pure function (A-CRC-FN); the error-detection strength of CRC-32C (Hamming distance, bursts) is assumed from the literature (A-CRC-HD), not proved.",
    },
    "C05": {
        "technique": "Verus postcondition accept <=> pwb_ok(bytes) with loop invariants on the real bit-mask and channel loops",
        "design_ref": "DESIGN.md §4 C05",
        "level_text": "PwbV2Packet::try_from(&[u8]) is proved to accept exactly the slices satisfying pwb_ok for every length and channel count, the channel lists are proved to be the set bits of the masks in ascending order mapped through the readout map, data is the i16 view of the blocks, and waveform_at is proved to return exactly the block of the requested channel.",
        "level_note": _COMMON_NOTE + " Assumed leaves: 80-bit mask assembly (copy_from_slice + from_le_bytes), rev/map/collect of channel indices, chunks_exact sample collection, MAC-table loop, u128::leading_zeros contract.",
    },
    "C06": {
        "technique": "Verus postcondition accept <=> trg_ok(bytes) + complete Kani proof over [u8;80]",
        "design_ref": "DESIGN.md §4 C06",
        "level_text": "TrgV3Packet::try_from is proved (Verus, every length) to accept exactly trg_ok and to return the little-endian fields; the same predicate is proved by Kani over all 2^640 80-byte inputs of the compiled crate, which also yields counterexamples.",
        "level_note": _COMMON_NOTE,
    },
}
