NOTES = ("Contract-based deductive verification of the real code. exit 0 = all obligations discharged; exit 1 = VIOLATION; "
         "exit 2 = undecided (lost anchor, unsupported construct, tool limit) and is never an alarm. See DESIGN.md.")

NOT_APPLICABLE = {
    "C11": "relational property over HashMap iteration order, thread/process identity and an f64 pipeline; no contract within reach of Verus/Kani expresses it (DESIGN §4 C11)",
    "C12": "statistical statement over >=200 simulated events about an end-to-end numeric chain measured against an independent forward model; not a per-function contract (DESIGN §4 C12)",
    "C14": "totality/finiteness over a continuous domain through Nelder-Mead, complex arithmetic and transcendentals; Verus leaves floats uninterpreted, CBMC cannot unroll the minimiser (DESIGN §4 C14)",
    "C16": "global optimality of a Newton solve of Kepler's equation over transcendental functions: numerical analysis, not a contract (DESIGN §4 C16)",
    "C17": "bit-for-bit and relative-error claims on f64 loops built from iterator chains; Verus has no float theory (vstd leaves f64 arithmetic unspecified: obeys_*_spec is false, so two executions of the same operation are not even known to agree, and the skip-ahead equivalence cannot be stated over the real text without substituting the element type), and the smallest relevant input is beyond bit-precise CBMC (DESIGN §4 C17)",
}

_COMMON_NOTE = ("Trusted: Verus/Z3, rustc, Kani/CBMC, vstd specs of core/alloc, the extractor's rewrite rules (reported per run in evidence.coverage.rules_fired), "
                "and every external_body leaf / assume_specification listed in evidence.assumptions. usize is 64-bit; slices are at most isize::MAX bytes.")

TEXT = {
    "C01": {
        "technique": "Verus safety obligations on extracted decoder bodies + Kani complete/bounded harnesses",
        "design_ref": "DESIGN.md §4 C01",
        "level_text": "Every overflow/underflow, index, slice-range, unwrap and loop-termination obligation that Verus generates for the real bodies of the TRG, ADC, chunk and PWB decoders and the id conversions is discharged for all inputs (no bound); TRG additionally by a complete Kani proof over all 80-byte slices.",
        "level_note": _COMMON_NOTE + " Most iterator chains of the decoders are rewritten into the index loops that define them and verified (rules R13-R18); the few that remain lifted to external_body leaves (mask assembly, concat, sort, table look-ups) are assumed panic-free under their stated preconditions (cross-checked by Kani harnesses, bounded where stated). String parsers and the Chronobox combinator parser are outside Verus.",
    },
    "C02": {
        "technique": "Verus postcondition accept <=> adc_ok(bytes) and field equalities on the extracted AdcV3Packet::try_from",
        "design_ref": "DESIGN.md §4 C02",
        "level_text": "AdcV3Packet::try_from(&[u8]) is proved to return Ok exactly when the mathematical predicate adc_ok (transcribed from the property statement) holds, for slices of every length, and every field of the result is proved equal to its big-endian view of the input.",
        "level_note": _COMMON_NOTE + " The sample collection (chunks_exact/map/collect) and the 64-sample baseline sum are rewritten into the index loops that define them (rules R15, R16) and verified. Remaining assumed leaves: [msw,lsw].concat(), Vec->[u8;8], the MAC-table look-up (BoardId::try_from([u8;6]), complete Kani proof over all MACs); std from_be_bytes contracts.",
    },
    "C03": {
        "technique": "Verus postcondition accept <=> chunk_ok(bytes) with both CRC words bound to exact byte ranges; coverage lemma",
        "design_ref": "DESIGN.md §4 C03",
        "level_text": "Chunk::try_from(&[u8]) is proved to accept exactly the slices satisfying chunk_ok, in which the two CRC words are the inverted CRC-32C of bytes [0,16) and [20,len-4); a lemma shows these ranges and the two CRC words partition every accepted slice; header_crc32c/payload_crc32c are proved to recompute the same words from the fields.",
        "level_note": _COMMON_NOTE + " crc32c::crc32c is an uninterpreted pure function (A-CRC-FN); the error-detection strength of CRC-32C (Hamming distance, bursts) is assumed from the literature (A-CRC-HD), not proved.",
    },
    "C05": {
        "technique": "Verus postcondition accept <=> pwb_ok(bytes) with loop invariants on the real bit-mask and channel loops",
        "design_ref": "DESIGN.md §4 C05",
        "level_text": "PwbV2Packet::try_from(&[u8]) is proved to accept exactly the slices satisfying pwb_ok for every length and channel count, the channel lists are proved to be the set bits of the masks in ascending order mapped through the readout map, data is the i16 view of the blocks, and waveform_at is proved to return exactly the block of the requested channel.",
        "level_note": _COMMON_NOTE + " The three collect chains (channel indices, samples) and the waveform sum/scan are rewritten into the index loops that define them (rules R13, R15-R17) and verified. Remaining assumed leaves: 80-bit mask assembly (copy_from_slice + from_le_bytes), the MAC-table look-up (complete Kani proof over all MACs), u128::leading_zeros contract.",
    },
    "C04": {
        "technique": "Verus contract over the multiset of chunks on the real reassembly code (scans and fold as verified loops) + order-independence lemmas; bounded native enumeration",
        "design_ref": "DESIGN.md §4 C04",
        "level_text": "PwbV2Packet::try_from(Vec<Chunk>) is proved, for every number of chunks, to return DeviceIdMismatch / ChannelIdMismatch exactly when the multiset mixes boards / chips, and otherwise the verdict of the documented ladder (missing-or-duplicated id, missing end flag, early end flag, payload size, decode of the id-ordered concatenation) on an id-sorted arrangement of the same multiset; pure lemmas show that this arrangement, and hence every verdict after the density check including the decoded packet, is unique for the multiset.",
        "level_note": _COMMON_NOTE + " The five iter().position scans and the payload fold are rewritten into the index loops that define them (rules R13, R14) and verified. Remaining assumed leaf: sort_unstable_by_key (permutation, sorted by id), cross-checked with everything else by native enumeration of every multiset of <=4 (quick) / <=5 (thorough) chunks in every order (labelled bounded); PwbV2Packet::try_from(&[u8]) and BoardId::try_from(u32) enter with the contracts proved in units pwb / chunk. The position reported by MissingChunk is proved for the sorted arrangement, and lemma_position_unique shows that two id-sorted arrangements of the same multiset report the same position, so lemma_order_independent covers that verdict too. chunks.len() <= 2^32 (machine assumption).",
    },
    "C07": {
        "technique": "complete Kani proofs of the real element parsers + Verus stream lemmas (longest prefix, split invariance) + bounded native cross-check of the combinator wiring",
        "design_ref": "DESIGN.md §4 C07",
        "level_text": "Every 4-byte word is proved (Kani, all 2^32 words, real fifo_entry) to be classified and decoded exactly as specified and the scaler block to be tag + 240 bytes consumed atomically; longest-prefix, remainder-untouched and n-piece split invariance are proved as lemmas over those element contracts.",
        "level_note": _COMMON_NOTE + " That chronobox_fifo computes the specified (entry|block)* prefix from the element parsers is ASSUMED from winnow's documented repeat/separated_foldl1 behaviour (A-WINNOW) and cross-checked natively on every stream of <=3 (quick) / <=4 (thorough) elements with every truncation and cut: bounded, not proved.",
    },
    "C08": {
        "technique": "complete Kani proofs over all ids / MACs / 4-byte names + Verus contracts on id conversions, run-number selectors and wire/pad-column arithmetic; native enumeration of table bijections",
        "design_ref": "DESIGN.md §4 C08",
        "level_text": "Name grammar (all 2^32 4-byte strings for the ADC16, ADC32 and fixed-name parsers; for PadWing names the reject side -- every 4-byte string that is not PC + two digits -- is proved and the 100 remaining strings are enumerated natively; main-event dispatch only bounded, by c08_names), board tables (all MACs, all device ids), readout-index map (all u16, injective), run-number selection (every u32: simulation maps like run 5000, runs before the first map give an error) and the index arithmetic to wires (<256) and pads are proved.",
        "level_note": _COMMON_NOTE + " The contents of the lazy_static HashMaps are opaque tables (A-MAPS): the 256-wire and 18432-pad bijections are enumerated natively at six run numbers, not proved. The name harnesses for ADC16 / ADC32 / fixed names run in the quick tier (about 75 s together); the full PadWing and main-event name harnesses need more than 45 GB / 55 min here and are not registered in any tier; name_padwing_reject (18 s) proves the reject side of the PadWing grammar and c08_names enumerates the 100 strings `PCdd` that remain.",
    },
    "C09": {
        "technique": "Verus safety obligations on the extracted index/selector functions and on the four arms of try_from_banks + complete Kani proofs of the extracted calibration closures",
        "design_ref": "DESIGN.md §4 C09",
        "level_text": "Only the integer and Option panic sites of event assembly are decided: both calibration closures (cut out of try_from_banks; all i16 samples and baselines), contiguous_ranges / range_to_len / wire<->pad-column functions, TpcWirePosition::try_new (unreachable!() unreachable, index < 256), TpcPadPosition::new (unwraps), and the arms of try_from_banks themselves (units evtwire, evtpad, evtchunk, evttrg): board_id().unwrap() and waveform_at(..).unwrap() are discharged at their call sites from the decoders' proved invariants, the slot indexings wire_signals[i] and pad_signals[c][r] from the proved ranges of the maps.",
        "level_note": _COMMON_NOTE + " Bounded stand-in: c09_event feeds ~480 extreme-but-valid events (waveform lengths around the calibration delay, i16 extremes, full ring, sent/over-threshold masks that differ) through try_from_banks, avalanches and vertex. NOT decided by proof: the floating-point pipeline (deconvolution, clustering, fitting, vertexing) and the loops of try_from_banks that drive the arms (generic iterator, HashMap).",
    },
    "C10": {
        "technique": "Verus contracts on the four match arms (and the final timestamp expression) cut out of MainEvent::try_from_banks, checked against the proved contracts of the decoders and maps; complete Kani proofs of the two calibration expressions; bounded native table of rejections",
        "design_ref": "DESIGN.md §9.9",
        "level_text": "Proved for every run number, payload and slot state. Anode-wire bank: a payload the ADC decoder rejects is rejected; a packet without samples is ignored; a barrel-veto channel, a bank name that disagrees with the packet's (board, channel), a board or run the wire map does not know, an occupied slot, a missing baseline / gain / delay each give an error and change nothing; otherwise the calibrated waveform (if any sample is left after the run's delay) is stored in exactly the slot TpcWirePosition::try_new assigns to the packet's (board, channel), all other slots unchanged. Pad channel of a reassembled packet: the same with TpcPadPosition::try_new(board, chip, channel), the 32 x 576 slot array, and the waveform block of that channel. PadWing bank: a chunk the decoder rejects or whose board differs from the bank name is rejected, otherwise it is appended to the group of its (board, chip) and nothing else changes. TRG bank: malformed or second TRG bank rejected, otherwise the timestamp is bytes 8..12 of the packet; no TRG bank at the end is an error. The calibration expression is proved (Kani, every sample and baseline, three gains) to be (sample - baseline) x gain for wires and pads.",
        "level_note": _COMMON_NOTE + " The arms are fragments (rule R11; `continue` -> `return Ok(())` inside the synthesised function, `?` desugared); callee contracts are copied from the units where they are proved (`contract_from` adc, wiremap, pwb, padmap, chunk, trg); calibration tables are uninterpreted functions of (run, element), the skip/map/collect chain an opaque function `calibrated` (its integer part is the Kani harness), the HashMap of chunk groups an opaque map with one assumed leaf (entry/or_default/push). Error payload types of the other arms are opaque placeholders in each unit. NOT decided by proof: the two loops that drive the arms (`for .. in banks`, `for chunks in map.into_values()`, `for &channel_id in packet.channels_sent()`) and the bank-name parser's dispatch -- that each arm runs once per bank / group / sent channel with the packet's own board and chip is read off the text and covered by the bounded native table c10_table; which error is reported when several apply is deliberately not part of the contract.",
    },
    "C13": {
        "technique": "Verus contract on the real contiguous_ranges (maximal cyclic runs, seam adjacency) + complete Kani proof of the induction-matrix entry",
        "design_ref": "DESIGN.md §4 C13",
        "level_text": "Index layer only: contiguous_ranges is proved to return blocks that cover exactly the occupied wires and in which every two adjacent occupied wires (including 255/0) are adjacent unknowns -- for every occupancy except the full ring, where the obligation fails (recorded known finding); the induction coefficient is proved to depend on the distance only; wire<->pad-column arithmetic is proved.",
        "level_note": _COMMON_NOTE + " Bounded stand-ins: c13_dims (ring index helpers, verbatim text, against the cyclic-range specification) and c13_sym (rotation by whole pad columns and z mirror of four synthetic events through the public API, bit-exact). NOT decided by proof: that the numeric kernels (faer Cholesky, ls_deconvolution, matching) depend only on block-ordered inputs (A-NUMERIC-LOCAL), the z-mirror clause.",
    },
    "C15": {
        "technique": "Verus contracts (multiset views) on the real cluster_spacepoints, its nested best_cluster and largest_cluster; assumed contracts for the Hough accumulator; bounded native runs of clustering and vertexing through the public API",
        "design_ref": "DESIGN.md §9.8",
        "level_text": "Proved for every input vector, every minimum size, bin counts and distance: the clusters and the remainder returned by cluster_spacepoints together are exactly the multiset of input points (nothing lost, duplicated or invented), every cluster has at least the minimum number of points, and every point of a cluster after the first lies within the maximum distance of an earlier point of the same cluster (single-linkage connectivity); the position(..).unwrap() of the remainder loop and the accumulator's remove_unchecked precondition never fail.",
        "level_note": _COMMON_NOTE + " Assumed: contracts of HoughSpaceAccumulator::{add, remove_unchecked, most_popular} over an abstract multiset of points (IndexMap entry API and float trigonometry are outside Verus) and of the accumulator constructor; SpacePoint::distance and quantity comparison are uninterpreted; precondition: the derived float equality of SpacePoint coincides with identity on the input points (no NaN coordinate, no +0/-0 aliasing). Termination is not proved (exec_allows_no_decreases_clause on two functions). Of the vertexing half only its first stage is proved (unit vertex: beamline_clusters partitions the candidate tracks into non-empty groups; sort_unstable_by, the push into the last group and the final map/collect are assumed leaves). NOT proved: find_vertices itself (one iterator chain around a Nelder-Mead minimiser) -- that the reported vertex plus the remainder is the input and 'primary only with >= 2 tracks' are checked by the bounded native run c15_vertex only; c15_cluster re-checks the clustering half on synthetic clouds through the public API and thereby exercises the assumed accumulator.",
    },
    "C18": {
        "technique": "Verus contracts on the real DriftTable::at, DriftTables::at and SpacePoint::try_from(Avalanche) over opaque quantities; bounded native grid over the shipped table for the numeric clauses",
        "design_ref": "DESIGN.md §9.7",
        "level_text": "Proved for every table of >= 2 knots and every non-NaN z and t: the conversion fails with AxialPositionOutOfRange(z) exactly when |z| exceeds the last tabulated bound, otherwise selects the first slice whose bound is >= |z| (hence identical for z and -z), fails with DriftTimeOutOfRange(t) exactly when t is outside [first, last] tabulated time of that slice, and otherwise returns lhs + fraction * (rhs - lhs) for the two adjacent knots that bracket t (last two at t = last), radius and Lorentz correction alike, phi = avalanche phi - correction, z passed through; no index underflow, no out-of-bounds access, no unwrap on None.",
        "level_note": _COMMON_NOTE + " uom quantities are opaque in the proof (comparison and arithmetic are uninterpreted functions; three IEEE facts are axioms: comparison is antisymmetric, None only on NaN, |x| is NaN only if x is). Consequently the numeric clauses of the statement -- radius within the tabulated range, non-increasing, < 0.5 mm per 8 ns, knots reproduced to 1e-12, correction in [0, max] -- are NOT proved: they are measured by the bounded native check c18_grid on all 92 shipped tables (every knot, +-1 ulp, midpoints, every slice boundary +-1 ulp, both signs: 2.3 million lookups), labelled bounded. The step clause fails on the shipped numbers at 135 listed knot intervals (known finding).",
    },
    "C19": {
        "technique": "Verus contracts on the scan-step statements cut out of both binaries and on the decision part of sort_run_files; bounded native and end-to-end runs",
        "design_ref": "DESIGN.md §4 C19",
        "level_text": "Two things are decided. (1) The time arithmetic: the four statements of the scan closure (both binaries) are proved to add the 32-bit-wrapped difference to the previous decodable event, 0 for the first and for undecodable events. (2) The file-order decisions of sort_run_files, for every number of files, once the (run number, initial timestamp) of each file has been read: files of different runs are refused, two files with the same initial timestamp are refused wherever they stand in the argument list, and otherwise the result is a permutation of the arguments in strictly increasing order of initial timestamp with the common run number.",
        "level_note": _COMMON_NOTE + " sort_unstable_by_key is an assumed leaf (permutation, sorted by the key); paths are opaque; reading the 12 header bytes of each file (std::fs, lz4, extension dispatch) is not under contract. Bounded stand-ins (not proofs): c19_sort runs sort_run_files on every (run, timestamp) assignment to <=4 files in every order; c19_csv runs the real alpha-g-trg-scalers and alpha-g-vertices on synthetic MIDAS files (8 timestamp scenarios incl. undecodable events, 32-bit wrap, gaps >= 2^31; 1 and 2 files in both command-line orders) and checks rows, order and trg_time. NOT decided: thread-count independence, vertex/scaler column contents beyond trg_time. cumulative < 2^63 assumed.",
    },
    "C20": {
        "technique": "Verus contract on the real chronobox_time + hardware-clock-model lemmas; bounded Kani check of the extracted row-split expression",
        "design_ref": "DESIGN.md §4 C20",
        "level_text": "chronobox_time is proved to return a time exactly when both markers are present, consecutive, of alternating top bit and on the right side of the timestamp, and then timestamp + ((counter+1)/2)*2^24; lemmas show that for the hardware model this is the true tick count (edge bit cleared) and that a timestamp on the wrong side of a marker never gets a time.",
        "level_note": _COMMON_NOTE + " The row split is checked by Kani on chunks of <=3 entries (element by element, bounded) and, as a loop-free structural statement (rows = the piece without its trailing marker: same start, length n or n-1), on pieces of up to 64 entries, where the only bound is the capacity of the symbolic array; c20_csv runs the real binary on hardware-model streams of 9 half wraps cut into irregular banks over two files (bounded). NOT decided: the fail-without-CSV clauses, multiple boards. The f64 conversion of the tick count is opaque in the proof.",
    },
    "C06": {
        "technique": "Verus postcondition accept <=> trg_ok(bytes) + complete Kani proof over [u8;80]",
        "design_ref": "DESIGN.md §4 C06",
        "level_text": "TrgV3Packet::try_from is proved (Verus, every length) to accept exactly trg_ok and to return the little-endian fields; the same predicate is proved by Kani over all 2^640 80-byte inputs of the compiled crate, which also yields counterexamples.",
        "level_note": _COMMON_NOTE,
    },
}
